#!/bin/sh
# usage: tools/run_all.sh <tier> [props...]  -- runs the checks one after another, logs to out/run_all-<tier>.log
tier="$1"; shift
cd /verif
props="$*"
[ -z "$props" ] && props="C01 C02 C03 C04 C05 C06 C07 C08 C09 C10 C11 C12 C13 C14 C15 C16 C17 C18 C19 C20"
log=out/run_all-$tier.log
: > $log
for p in $props; do
  s=$(date +%s)
  ./check $p $tier > out/last-$p-$tier.txt 2>&1
  rc=$?
  e=$(date +%s)
  echo "$p rc=$rc secs=$((e-s)) $(grep -E '^(OK|VIOLATION|INCONCLUSIVE|KNOWN)' out/last-$p-$tier.txt | cut -c1-200 | head -4 | tr '\n' '|')" >> $log
done
echo DONE >> $log
