#!/bin/sh
# usage: tools/try_all_seeds.sh [tier] [seed-id...]  -- every stored seeded change against its property's check
# (apply to /repo, run, undo). Writes out/seeds-<tier>.log: "<seed> <property> exit=<rc> <first violation sig>"
tier="${1:-quick}"; [ $# -gt 0 ] && shift
cd /verif
ids="$*"; [ -z "$ids" ] && ids=$(ls seeded)
log=out/seeds-$tier.log; : > $log
for id in $ids; do
  prop=$(python3 -c "import json;print(json.load(open('seeded/$id/meta.json'))['property'])")
  out=$(tools/try_patch.sh /verif/seeded/$id/patch.diff $prop $tier 2>&1)
  rc=$(echo "$out" | sed -n 's/^exit=//p')
  sig=$(echo "$out" | grep -m1 -o 'sig=[^ ]*' | cut -c1-150)
  echo "$id $prop exit=$rc $sig" >> $log
done
git -C /repo status --short | head -3 >> $log
echo DONE >> $log
