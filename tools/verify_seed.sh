#!/bin/sh
# usage: tools/verify_seed.sh <worktree> <demo-relative-path> <crate>
# Confirms in the scratch worktree: (1) worktree diff == patch.diff, (2) existing tests pass with the change,
# (3) the demo fails with the change and (4) passes without it.
set -u
wt="$1"; demo="${2:-engine/tests/seed_demo.rs}"; crate="${3:-wirefilter-engine}"
cd "$wt" || exit 3
tmp=$(mktemp -d /var/tmp/verify_seed.XXXXXX)   # per-run scratch: several worktrees may be verified side by side
export CARGO_NET_OFFLINE=true RUST_BACKTRACE=0
git diff -- engine/src ffi/src > $tmp/cur
if ! cmp -s $tmp/cur patch.diff; then echo "NOTE: worktree diff differs from patch.diff; resetting to patch.diff"; git checkout -- engine/src ffi/src; git apply patch.diff || exit 3; fi
mv "$demo" $tmp/seed_demo.rs
suite=$(cargo test --workspace --offline --no-fail-fast 2>&1 | grep -E "^test result|FAILED|panicked" )
echo "$suite" | grep -q "FAILED\|failed;" && echo "$suite" | grep -v " 0 failed" | head -5
nfail=$(echo "$suite" | grep -c "^test result: FAILED")
mv $tmp/seed_demo.rs "$demo"
echo "existing suite with change: failing result lines = $nfail"
with=$(cargo test -p "$crate" --test seed_demo --offline 2>&1 | grep -E "^test result" | tail -1)
echo "demo WITH change:    $with"
git apply -R patch.diff
without=$(cargo test -p "$crate" --test seed_demo --offline 2>&1 | grep -E "^test result" | tail -1)
echo "demo WITHOUT change: $without"
git apply patch.diff
rm -rf "$tmp"
