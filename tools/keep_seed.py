#!/usr/bin/env python3
"""usage: keep_seed.py <seed-id> <property> <worktree> <caught:yes|no|after-strengthening> "<needs>" "<detected_by>" [note]"""
import json, os, shutil, sys, subprocess
sid, prop, wt, caught, needs, detected = sys.argv[1:7]
note = sys.argv[7] if len(sys.argv) > 7 else ""
d = f"/verif/seeded/{sid}"
os.makedirs(d, exist_ok=True)
shutil.copy(f"{wt}/patch.diff", f"{d}/patch.diff")
for demo in ("engine/tests/seed_demo.rs", "ffi/tests/seed_demo.rs"):
    if os.path.exists(f"{wt}/{demo}"):
        shutil.copy(f"{wt}/{demo}", f"{d}/seed_demo.rs")
        demo_path = demo
if os.path.exists(f"{wt}/NOTES.md"):
    shutil.copy(f"{wt}/NOTES.md", f"{d}/NOTES.md")
base = subprocess.run(["git", "-C", "/repo", "rev-parse", "--short", "HEAD"], stdout=subprocess.PIPE, text=True).stdout.strip()
meta = {
    "seed_id": sid,
    "property": prop,
    "author": "independent sub-agent given only the property text and a scratch worktree",
    "base_commit": base,
    "files_changed": sorted({l[6:].strip() for l in open(f"{d}/patch.diff") if l.startswith("+++ b/")}),
    "needs_to_manifest": needs,
    "demo": {"path_in_repo": demo_path, "with_change": "fails", "without_change": "passes"},
    "confirmed_by_me": [
        "tools/verify_seed.sh <worktree>: existing workspace test suite passes with the change (cargo test --workspace --offline --no-fail-fast, demo moved aside)",
        "demo test fails with the change and passes with the change reversed (git apply -R)",
        f"tools/try_patch.sh seeded/{sid}/patch.diff {prop}: git -C /repo apply; ./check {prop} quick; git -C /repo checkout -- .",
    ],
    "caught_by_quick_check": caught,
    "detected_by": detected,
    "note": note,
}
json.dump(meta, open(f"{d}/meta.json", "w"), indent=1)
print("kept", d)
