#!/bin/sh
# usage: tools/soak.sh <tier> <seed>...  -- every check at every seed on the current tree; prints what is not OK
tier="$1"; shift
cd /verif
: > out/soak-$tier.log
for s in "$@"; do
  VERIF_SEED=$s tools/run_all.sh $tier >/dev/null 2>&1
  sed "s/^/seed=$s /" out/run_all-$tier.log >> out/soak-$tier.log
  mkdir -p out/soak-$tier-$s; cp out/last-*-$tier.txt out/soak-$tier-$s/ 2>/dev/null
done
grep -v "rc=0" out/soak-$tier.log | grep -v DONE
echo "soak done: $(grep -c 'rc=0' out/soak-$tier.log) OK lines"
