#!/bin/sh
# usage: tools/try_patch.sh <patch.diff> <Cxx> [tier]  -- apply a seeded change to /repo, run one check, undo
set -u
patch="$1"; prop="$2"; tier="${3:-quick}"
cd /verif
git -C /repo diff --quiet || { echo "/repo has local changes"; exit 3; }
git -C /repo apply "$patch" || { echo "patch does not apply"; exit 3; }
./check "$prop" "$tier" > /tmp/try_patch.out 2>&1
rc=$?
git -C /repo checkout -- .
grep -E "^(VIOLATION|OK|INCONCLUSIVE|KNOWN)|^  oracle" /tmp/try_patch.out | cut -c1-260 | head -12
echo "exit=$rc"
