#!/usr/bin/env python3
"""Regenerate MANIFEST.json from lib/props.py and properties.jsonl."""
import json, os, subprocess, sys
ROOT = os.path.dirname(os.path.dirname(os.path.abspath(__file__)))
sys.path.insert(0, os.path.join(ROOT, "lib"))
from props import PROPS
ids = [json.loads(l)["id"] for l in open(os.path.join(ROOT, "properties.jsonl"))]
hooks = subprocess.run(["git", "-C", "/repo", "log", "--format=%H %s", "--grep=^verif-hooks:"],
                       stdout=subprocess.PIPE, text=True).stdout.strip().splitlines()
m = {
    "version": 1,
    "setup_cmd": "./setup.sh",
    "hooks": {
        "guard": "cargo feature `verif-hooks` of crate wirefilter-engine (off by default, not in `default`)",
        "enable": "harness/Cargo.toml: wirefilter = { path = \"/repo/engine\", features = [\"verif-hooks\"] }",
        "baseline_off_cmd": "cd /repo && cargo test --workspace --no-fail-fast --offline",
        "source_commits": [h.split()[0] for h in reversed(hooks)],
        "add_only": True,
    },
    "engines": [{
        "name": "wfverif",
        "path": "harness",
        "serves_properties": [p for p in ids if p in PROPS],
        "kind_free_text": "Rust harness linking the real engine/ffi crates from /repo by path: generators, executable reference semantics, online oracles, event logs; run under release, debug, ASan, TSan and Miri builds by the ./check supervisor",
    }],
    "checks": [],
    "not_applicable": [],
    "notes": "Runtime monitoring only: every verdict is 'held on the executions described in evidence/<id>.json', 'violated (replay file)' or 'inconclusive'. See DESIGN.md.",
}
for p in ids:
    if p in PROPS:
        c = PROPS[p]
        m["checks"].append({
            "property_id": p,
            "quick_cmd": f"./check {p} quick",
            "thorough_cmd": f"./check {p} thorough",
            "evidence_file": f"/verif/evidence/{p}.json",
            "replay_cmd_template": f"./check {p} --replay {{path}}",
            "engine": "wfverif",
            "level_claimed": {
                "category": "exploration",
                "text": c.get("level_text", "Differential runtime monitoring: the real engine runs beside an independent executable reference on generated and boundary workloads; a clean run means the property held on the executions counted in the evidence file, nothing more."),
                "design_ref": f"DESIGN.md section 4, {p}",
            },
            "level_note": c.get("level_note", "Trusts the harness's reference semantics and generators (reviewed against the property statement), rustc/std and third-party crates. Finite sampling except for the families reported as exhaustive."),
            "technique": c.get("technique", "runtime monitoring: reference-model differential oracle over generated workloads"),
        })
    else:
        m["not_applicable"].append({"property_id": p, "reason": "monitor not built yet (work in progress; planned in DESIGN.md section 4)"})
json.dump(m, open(os.path.join(ROOT, "MANIFEST.json"), "w"), indent=1)
print("checks:", len(m["checks"]), "not_applicable:", len(m["not_applicable"]))
