#!/bin/sh
# usage: tools/try_wt.sh <worktree-with-change-applied> <Cxx> [tier]
# Runs one check against a scratch worktree instead of /repo, from a scratch copy of /verif
# (/tmp/vcopy, own target dir), so it can run while other checks use /repo. Interim tool only:
# the recorded confirmation of a seeded change is tools/try_patch.sh (git -C /repo apply).
set -u
wt="$1"; prop="$2"; tier="${3:-quick}"
mkdir -p /tmp/vcopy
rsync -a --delete --exclude target --exclude out --exclude .git --exclude seeded --exclude evidence /verif/ /tmp/vcopy/
mkdir -p /tmp/vcopy/evidence /tmp/vcopy/out
sed -i "s#/repo/#$wt/#g" /tmp/vcopy/harness/Cargo.toml
# the scratch target dir is reused between worktrees: drop the path-dependent crates
for d in /tmp/vcopy/target/*/; do
  find "$d" \( -name '*wirefilter*' -o -name '*wfverif*' \) -prune -exec rm -rf {} + 2>/dev/null
done
cd /tmp/vcopy && ./check "$prop" "$tier" > /tmp/vcopy/out/try.out 2>&1
rc=$?
grep -E "^(VIOLATION|OK|INCONCLUSIVE|KNOWN)|^  oracle" /tmp/vcopy/out/try.out | cut -c1-260 | head -12
echo "exit=$rc"
