"""Per-property configuration of the supervisor: which build variants run in
which tier, the non-triviality rule reported in the evidence, coverage floors."""


def st(variant, **kw):
    d = {"variant": variant}
    d.update(kw)
    return d


COMMON_ASSUMPTIONS = [
    "the reference semantics (harness/src/refsem.rs) states the property correctly",
    "a finite sample of programs/inputs stands for the quantifier; exhaustive only where a family is listed under exhaustive_families",
    "rustc/LLVM, std and the third-party crates behave as documented",
]

PROPS = {
    "C01": {
        "rule": ("matrix: every (type, operator alias, lhs boundary value | absent, rhs boundary literal, "
                 "mandatory|optional field, nil-not-equal setting) cell, enumerated completely; chains: every "
                 "4-operator chain over and/xor/or with optional not per operand x all 32 truth assignments, "
                 "enumerated completely; random: type-directed filters (depth<=5, not/and/xor/or, redundant "
                 "parentheses, random aliases/whitespace/literal spellings) x 8 contexts each. A case is "
                 "non-trivial and counted as distinct by the hash of (nil-not-equal, canonical filter text, "
                 "context) when it is a matrix/chain cell or a random filter with >=1 logical operator."),
        "quick": [st("rel")],
        "thorough": [st("rel"), st("dbg")],
        "floors": {"quick": {"evaluations": 150000, "distinct_nontrivial": 40000}},
        "assumptions": COMMON_ASSUMPTIONS,
    },
    "C02": {
        "rule": ("random: type-directed filters over arrays/maps nested to depth 3 with [n]/[\"key\"]/[*] paths "
                 "(indexes 0,1,2,3,5,2^31,2^32-1; keys present/absent/empty/non-ASCII), element-wise not/and/or/xor, "
                 "any()/all() over logical arguments and over boolean-array values, x 5 random contexts (empty, "
                 "singleton, ragged, absent containers); values: [*]-free value expressions x 4 contexts. "
                 "Non-trivial = some [*] path evaluated to >=2 elements or some path has >=2 index steps (values: "
                 ">=2 steps or a present indexed value); distinct by hash of (canonical text, context)."),
        "quick": [st("rel"), st("asan")],
        "thorough": [st("rel"), st("dbg"), st("asan"), st("miri", only="random", jobs=1, shards=16, timeout=5400)],
        "floors": {"quick": {"evaluations": 60000, "distinct_nontrivial": 20000,
                             "evals_with_ragged_operands": 1000}},
        "on_death": "sanitizer",
        "assumptions": COMMON_ASSUMPTIONS,
    },
    "C03": {
        "rule": ("random: filters whose comparisons / quantifier arguments / call arguments contain calls of the "
                 "harness function family (identity, len, upper, sum with 2 optional parameters, head, tally, "
                 "keepeven (absent on odd), neg, glue (field-only + literal-only + optional), built-in concat, "
                 "tag (definition context)), plain and mapped over arrays and maps, nested to depth 3, every call "
                 "site under its own function name; values: value expressions with a call at the base; ctx: calls "
                 "of the context-carrying definition with 1..3 arguments, nested and mapped. Observed: the "
                 "(site, arguments, result) log written by the functions and the definition-context event log. "
                 "Non-trivial = at least one call was evaluated; distinct by hash of (canonical text, context)."),
        "quick": [st("rel"), st("asan")],
        "thorough": [st("rel"), st("dbg"), st("asan"), st("miri", only="random", jobs=1, shards=16, timeout=5400)],
        "floors": {"quick": {"evaluations": 30000, "distinct_nontrivial": 15000, "calls_observed": 30000,
                             "ctx_events": 10000}},
        "on_death": "sanitizer",
        "assumptions": COMMON_ASSUMPTIONS,
    },
    "C06": {
        "rule": ("every literal is rendered in each permitted form and embedded in 10-20 syntactic contexts that "
                 "differ in the token following it (end of input, `)`, `}`, `]`, `,`, and/or/xor in word and symbol "
                 "form with and without whitespace, another list item, call argument first/middle/last, quantifier); "
                 "the parsed AST's JSON must equal the canonical document of the generated structure. Families: "
                 "integers (boundaries + random; dec/0x/0X/octal), integer ranges, array indexes (complete boundary "
                 "table), the complete 256-byte x escape-form table (literal char, \\xhh, \\xHH, \\OOO, mixed; hex "
                 "pairs with `:`/`-`/`.` in both cases), random byte strings incl. raw strings with the minimal, "
                 "+1, +2 and 255 hashes and map keys, the complete raw-delimiter x inner-quote-run table, IP "
                 "spellings, every CIDR prefix length 0..32 and 0..128, ranges, and a table of malformed literals "
                 "that must be rejected. distinct_nontrivial counts distinct literal spellings."),
        "quick": [st("rel")],
        "thorough": [st("rel"), st("dbg")],
        "floors": {"quick": {"evaluations": 150000, "distinct_nontrivial": 10000, "raw_strings": 500}},
        "assumptions": COMMON_ASSUMPTIONS + ["the canonical JSON (harness/src/canon.rs) is the documented serialisation"],
    },
    "C07": {
        "rule": ("structures: random well-typed filters (fields, index paths, calls, lists, sets, regex, wildcard, "
                 "quantifiers; depth 1..4); each is rendered canonically, in EVERY alias combination when it has <=5 "
                 "alias choice points (else 6 random layouts) with random whitespace, and once with random literal "
                 "spellings; all renderings must give equal ASTs, byte-identical JSON, equal std hash and equal C-API "
                 "hash; the JSON must equal the canonical document and the C hash must be FNV-1a of it. mutations: a "
                 "structural mutation (operator, literal value/kind, index, identifier, quantifier, operand order, "
                 "association) must change the JSON. distinct_nontrivial counts distinct canonical texts / pairs."),
        "quick": [st("rel")],
        "thorough": [st("rel"), st("dbg")],
        "floors": {"quick": {"evaluations": 30000, "distinct_nontrivial": 8000, "mutation_pairs": 3000,
                             "structures_with_all_alias_combinations": 3000}},
        "assumptions": COMMON_ASSUMPTIONS + ["the canonical JSON (harness/src/canon.rs) is the documented serialisation"],
    },
    "C09": {
        "rule": ("int-exhaustive: all lists of <=3 (thorough: <=4) items over the 28 ranges of a 7-point domain x "
                 "every probe point + absent, under three embeddings into i64 (0..6; MIN,MIN+1,-1,0,1,MAX-1,MAX; "
                 "around 2^32); ip4/ip6-exhaustive: all lists of <=2 (thorough <=3) items over 15 CIDRs (/29../32 "
                 "resp. /125../128) and 28 ranges/addresses of an 8-address block x 12 probes incl. neighbours and "
                 "the other family + absent; random: lists of <=40 ints / <=24 IP items / <=12 byte strings with "
                 "endpoints drawn around each other and the type extremes, probed at every endpoint +-1. Each list "
                 "is rendered with random order-preserving layout and literal spellings. distinct_nontrivial = "
                 "distinct lists (exhaustive families: every list; random: lists with >=2 items)."),
        "quick": [st("rel")],
        "thorough": [st("rel"), st("dbg")],
        "floors": {"quick": {"evaluations": 800000, "distinct_nontrivial": 60000}},
        "assumptions": COMMON_ASSUMPTIONS,
    },
    "C10": {
        "rule": ("anchors: pattern lengths 0..=40 x 5 pattern families (single byte repeated, alternating, random "
                 "over {a,b,c}, distinct first/last byte, bytes 0x00/0x80/0xff) x EVERY anchor position 1..len-1 "
                 "(forced through the verif-hooks override) x ~230 haystacks each (empty, equal, one shorter/longer, "
                 "pattern at offset 0 / at the very end for 16 total lengths around 16/32/64/128-byte blocks, "
                 "straddling block boundaries, near-misses in the first/anchor/last byte, random over 1-3 letter "
                 "alphabets up to 300 bytes; exact-size heap allocations and tails of larger ones); run once with "
                 "WIREFILTER_USE_AVX2=1 and once with =0; recompile: 50 recompilations with the random anchor must "
                 "agree. Oracle: naive window search. distinct_nontrivial = distinct (pattern, anchor, mode)."),
        "quick": [st("rel", name="avx2", env={"WIREFILTER_USE_AVX2": "1"}, extra={"avx2": "1"}),
                  st("rel", name="scalar", env={"WIREFILTER_USE_AVX2": "0"}, extra={"avx2": "0"}),
                  st("asan", name="avx2", env={"WIREFILTER_USE_AVX2": "1"}, extra={"avx2": "1"})],
        "thorough": [st("rel", name="avx2", env={"WIREFILTER_USE_AVX2": "1"}, extra={"avx2": "1"}),
                     st("rel", name="scalar", env={"WIREFILTER_USE_AVX2": "0"}, extra={"avx2": "0"}),
                     st("asan", name="avx2", env={"WIREFILTER_USE_AVX2": "1"}, extra={"avx2": "1"}),
                     st("asan", name="scalar", env={"WIREFILTER_USE_AVX2": "0"}, extra={"avx2": "0"}),
                     st("dbg", name="avx2", env={"WIREFILTER_USE_AVX2": "1"}, extra={"avx2": "1"}),
                     st("miri-avx2", name="avx2", env={"WIREFILTER_USE_AVX2": "1"}, extra={"avx2": "1"}, jobs=1, shards=16, timeout=5400)],
        "floors": {"quick": {"evaluations": 500000, "rel:avx2:searcher_avx2_array": 500,
                             "rel:avx2:searcher_avx2_boxed": 2000, "rel:scalar:searcher_memmem": 150,
                             "rel:avx2:searcher_memchr": 1, "rel:avx2:searcher_empty": 1}},
        "on_death": "sanitizer",
        "assumptions": COMMON_ASSUMPTIONS + ["the host CPU supports AVX2 (otherwise the run is inconclusive)"],
        "technique": "runtime monitoring: naive-search oracle over hook-steered SIMD anchor positions, repeated under AddressSanitizer",
    },
    "C12": {
        "rule": ("random: generated filters of the C01-C03/C17 generators; directed: a target field (every field of "
                 "the rich scheme in turn) occurs exactly once, in a chosen position (lhs, index-path base, call "
                 "argument 1/2/3, nested call, parenthesised logical argument, quantifier argument, lhs of `in $list`, "
                 "call inside a list lhs, list comparison inside a call argument) among 0-2 random sub-filters that do "
                 "not mention it; values: value expressions. For each: uses()/uses_list() of EVERY field of the scheme "
                 "against the set of identifiers of the generating AST, and 20 non-field names (prefixes, extensions, "
                 "case variants, function names) that must give an error; wide-schemes: schemes of 1..600 fields "
                 "(around 32/64/128/256), filters over 1-5 fields biased to the last fields and the boundaries, "
                 "uses()/uses_list() of EVERY field. distinct_nontrivial = distinct texts that use at least one field."),
        "quick": [st("rel")],
        "thorough": [st("rel"), st("dbg")],
        "floors": {"quick": {"evaluations": 200000, "distinct_nontrivial": 4000, "field_used_in_list": 1000,
                             "wide_used_field_index_ge_64": 500}},
        "assumptions": COMMON_ASSUMPTIONS,
    },
    "C13": {
        "rule": ("shapes: EVERY sequence of the nesting constructs (parentheses, not, any(), call with the nested "
                 "expression as first argument, as second argument, array-typed call, Bool->Array call) applied "
                 "inside-out to 4 leaves up to depth 6 (thorough 8), in 3 placements (alone, right operand of a chain, "
                 "inside a longer chain), each parsed under every limit d in 0..=8: accepted iff RefSem nesting <= d, "
                 "rejection must be the nesting-limit error, and the hooked depth counter must equal the nesting of "
                 "accepted filters; values: call chains under parse_value for d in 0..=12; large: random shapes of "
                 "depth d-1,d,d+1 for d in {16,64,128,129,200} and the default parser; deep: per construct, the whole "
                 "life cycle (parse, serialise, hash, clone, compile, execute, drop) of a depth-128 filter on a "
                 "2 MiB stack (8 MiB unoptimised) in its own process with the stack high-water mark measured by "
                 "stack painting, and a 100000-deep input must be cut off using no more stack than the depth-128 one "
                 "(x1.25 + 64 KiB). distinct_nontrivial = distinct texts with nesting >= 1."),
        "quick": [st("rel")],
        "thorough": [st("rel"), st("dbg")],
        "floors": {"quick": {"evaluations": 500000, "distinct_nontrivial": 50000, "children_run": 7}},
        "assumptions": COMMON_ASSUMPTIONS + ["stack use is observed on x86_64 Linux with the toolchain's default codegen"],
        "technique": "runtime monitoring: reference nesting count + hooked depth counter + stack high-water mark in isolated processes",
    },
    "C15": {
        "rule": ("types-exhaustive: ALL 32764 types with <=12 array/map layers over 4 primitives: Type -> packed "
                 "CompoundType -> Type, Type -> C CType -> Type, CType built through the C constructor functions, "
                 "packed layers/len (read from Debug) equal to the C struct, JSON form equal to the documented one, "
                 "JSON round trip through from_str/from_slice/from_reader/from_value, C-API type JSON; types-deep: "
                 "sampled types with 13..32 layers (all-array, all-map, both alternations, random); types-too-deep: "
                 "every layer count 33..130 x 3 layer patterns x 4 feeds must be an error (33 may round-trip "
                 "identically), standalone and inside a scheme document; schemes: 0..40 fields with dotted, long, "
                 "non-ASCII and JSON-escaped names and types to depth 3: document equals the documented form, field "
                 "order, round trip through four feeds, duplicate names rejected. distinct_nontrivial = distinct types "
                 "with >=1 layer / distinct schemes with >=2 fields."),
        "quick": [st("rel")],
        "thorough": [st("rel"), st("dbg"), st("fuzz", target="c15", seconds=180, max_len=1024)],
        "floors": {"quick": {"evaluations": 40000, "distinct_nontrivial": 30000, "scheme_feeds_ok": 4000,
                             "duplicates_rejected": 2000, "too_deep_rejected": 1000}},
        "technique": "runtime monitoring: reference-model differential oracle over generated workloads (exhaustive up to 12 layers); thorough adds a coverage-guided (libFuzzer, ASan) workload decided by the accept-implies-round-trip oracle",
        "assumptions": COMMON_ASSUMPTIONS + ["the wasm binding is not executed (no wasm target); its only logic, Scheme: Deserialize with owned keys, is exercised through from_reader/from_value"],
    },
    "C16": {
        "rule": ("sequences: ALL sequences of length <=4 (thorough <=5) over 20 op instances - for each of the colliding "
                 "names x, x.y, x.y.z, X, xy, x_y one add_field(Int), one add_optional_field(Bytes), one add_function, "
                 "plus add_list(Int) and add_list(Bytes) - replayed against an abstract registry: every add_* result "
                 "(including WHICH kind is reported as holding the name), then on the built scheme field_count/"
                 "function_count/list_count, fields()/functions()/lists() order, index, type, optionality, get_field/"
                 "get_function/get_list for 24 names (pool names, prefixes, extensions, case variants), and parsing "
                 "`name == 1`, `name == \"a\"`, `name`, `name() == 7` which must resolve by complete name and kind only; "
                 "random: sequences of length 6-12 over a 33-instance pool; identity: clones equal, identical rebuilds "
                 "unequal, foreign fields refused. distinct_nontrivial = distinct sequences of length >=2."),
        "quick": [st("rel")],
        "thorough": [st("rel"), st("dbg")],
        "floors": {"quick": {"evaluations": 180000, "distinct_nontrivial": 150000, "rejected_adds": 100000}},
        "assumptions": COMMON_ASSUMPTIONS,
        "technique": "runtime monitoring: bounded-exhaustive operation histories replayed against an abstract registry model",
    },
    "C17": {
        "rule": ("delegation: one `lhs in $name` comparison (lhs = field, index path, map-each path under any/all, call "
                 "result; optionally negated) over harness list definitions for Int/Ip/Bytes registered in all 6 "
                 "orders, x 4 contexts whose named sets are seeded with values the lhs evaluates to; the result must "
                 "equal set membership and the (name, value) queries logged by the harness matcher must equal the "
                 "expected sequence; mixed: random filters containing list comparisons; names: valid names and names "
                 "with a foreign character inside / leading / trailing dot / empty in 4 syntactic contexts; no-list: "
                 "all 8 subsets of registered list types x 8 filters; builtin: always/never lists on all three types; "
                 "history: 6-20 random steps of mutate-matcher (through get_list_matcher_mut + downcast), clear, "
                 "serialise+deserialise, execute against a model of the matcher state. distinct_nontrivial = distinct "
                 "filter texts whose evaluation queried a matcher / distinct histories."),
        "quick": [st("rel")],
        "thorough": [st("rel"), st("dbg")],
        "floors": {"quick": {"evaluations": 80000, "distinct_nontrivial": 8000, "matcher_queries": 15000,
                             "matcher_hits": 5000, "history_steps": 10000}},
        "assumptions": COMMON_ASSUMPTIONS,
    },
    "C04": {
        "rule": ("Complete finite matrices, each cell checked at top level, inside any(...) and combined with a boolean: "
                 "op-matrix 18 left sides (4 scalars, containers, indexed, mapped, call results) x 15 operator spellings "
                 "x 12 right-hand-side kinds (int, quoted/raw/hex bytes, IPv4, IPv6, int/bytes/ip/empty brace lists, "
                 "$list, nothing); index-matrix 10 bases x 9 x 9 index kinds ([n], [\"k\"], [*], negative, > u32, raw "
                 "key, non-UTF-8 key, empty); operand-matrix 12 x 12 operands x 6 logical operator spellings; "
                 "quantifier-matrix 29 argument kinds x any/all; call-matrix 70 signature x argument-shape cases "
                 "(arity, literal/field kind, type, [*] placement, result indexing, namespaces); value-matrix 22 value "
                 "expressions. random: generated well-typed filters (controls) and the same with exactly one typing "
                 "rule broken (9 mutation kinds, unambiguous spellings only), decided by the reference type checker. "
                 "Every accepted program is compiled and executed on 3 contexts (no panic; well-typed ones must also "
                 "give the reference result); values: value expressions - acceptance, static type, and each result is a "
                 "value of the static type or an absence tagged with it. distinct_nontrivial = distinct texts."),
        "quick": [st("rel")],
        "thorough": [st("rel"), st("dbg"), st("fuzz", target="c04", seconds=300)],
        "floors": {"quick": {"evaluations": 50000, "distinct_nontrivial": 15000, "accepted": 5000, "rejected": 10000,
                             "random_ill_typed": 3000, "random_well_typed": 4000}},
        "technique": "runtime monitoring: reference-model differential oracle over generated workloads; thorough adds a coverage-guided (libFuzzer, ASan) workload decided by the no-panic / value-has-static-type oracle",
        "assumptions": COMMON_ASSUMPTIONS + ["the typing rules of harness/src/refsem.rs and the expectation tables of props/c04.rs are the documented rules (reviewed cell by cell against the statement; DESIGN.md 3.3 lists the readings adopted)"],
    },
    "C19": {
        "rule": ("A sentinel panic hook is installed first, the catcher's hook on top. programs: EVERY program of "
                 "length <=5 (thorough <=6) over {enable, disable, enter catch_panic, return, panic(unique message), "
                 "install hook again, set fallback Continue, query backtrace}, each executed for real (really nested "
                 "closures) on a fresh thread and followed by a probe panic outside catch_panic; every observation "
                 "(catch_panic Ok/Err+message, sentinel calls, backtrace content, the hooked nesting level after every "
                 "step) must equal the abstract model's; two-threads: pairs of programs of length <=3 over the 5 "
                 "state-changing steps run on two threads under a lock-step scheduler in EVERY step interleaving "
                 "(quick: 1200 sampled pairs, thorough: all 24336), each thread's observations must equal its solo "
                 "run; install-race: fresh processes in which 16 threads call panic_catcher_set_hook() behind a barrier "
                 "with the verif-hooks delay between take_hook and set_hook, after which the hook chain must still "
                 "reach the sentinel. distinct_nontrivial = distinct programs of length >=2 / pairs / processes."),
        "quick": [st("rel", timeout=1800)],
        "thorough": [st("rel", timeout=7200), st("tsan", timeout=7200)],
        "floors": {"quick": {"evaluations": 40000, "distinct_nontrivial": 30000, "interleavings": 10000,
                             "programs_with_caught_panic": 300, "children_run": 40}},
        "assumptions": COMMON_ASSUMPTIONS,
        "technique": "runtime monitoring: bounded-exhaustive step programs and two-thread interleavings against an abstract state machine; fresh-process install race with injected delay; ThreadSanitizer in the thorough tier",
    },
    "C08": {
        "rule": ("histories: ALL operation sequences of length <=3 (thorough <=4) over 22 op instances on a 2-field scheme "
                 "(Array(Bytes), Map(Array(Int)), both optional): set by field with 1 well-typed + 3 ill-typed values per "
                 "field (wrong primitive; right container, wrong element; right shape, wrong depth), set by name (good, "
                 "wrong type, unknown name), set with a field of a structurally identical foreign scheme, clear, "
                 "clone_with (continue on clone / on original), borrow_with{sets}drop, take_with, execute filter + value "
                 "expressions, execute against a foreign-scheme context (must be a scheme-mismatch error and invoke no "
                 "function), compare all live contexts; after EVERY step every field of every live context is read back, "
                 "its deep type checked and compared with the model; random: histories of 20-80 steps over the rich "
                 "scheme; constructors: Array::try_from_iter/try_from_vec, Map::try_from_iter with homogeneous and "
                 "heterogeneous element lists; typed: the transmute-based TypedArray/TypedMap accessors. "
                 "distinct_nontrivial = distinct histories of length >=2."),
        "quick": [st("rel"), st("asan")],
        "thorough": [st("rel"), st("dbg"), st("asan"), st("miri", only="typed", jobs=1, shards=8, name="typed", timeout=5400), st("miri", only="constructors", jobs=1, shards=8, name="constructors", timeout=5400)],
        "floors": {"quick": {"evaluations": 150000, "distinct_nontrivial": 12000, "heterogeneous_inputs": 800}},
        "on_death": "sanitizer",
        "assumptions": COMMON_ASSUMPTIONS,
        "technique": "runtime monitoring: bounded-exhaustive and random operation histories against an abstract typed-map model with a deep-type invariant walked after every step",
    },
    "C11": {
        "rule": ("wildcard: ALL patterns over {a, B, *, backslash, ?} up to length 6 (thorough 7), each as quoted and raw "
                 "literal, with `wildcard` and `strict wildcard`, parsed under star limits 0..4 and unlimited: accepted "
                 "iff the reference parser finds no invalid escape, no `**` and at most `limit` stars; every accepted "
                 "pattern is executed on 406 values (all strings over {a,A,b,B,*,backslash,?} up to length 3 plus non-UTF-8, "
                 "NUL, newline) against an independent matcher (ASCII case folding iff not strict); regex: generated "
                 "subset patterns (literals, ., classes with ranges/negation/quotes/brackets, ? * +, alternation, "
                 "groups, ^ $, \\xHH, \\d \\w) in quoted and raw form: the pattern in the AST must equal the "
                 "generated one, and matching on ~16 values must equal an independent backtracking matcher (cross-checked "
                 "against a regex_automata instance built in the harness with the documented configuration; "
                 "disagreements between the two references are discarded and counted); regex-limits: acceptance "
                 "under compiled-size limits 1..10^7 must be monotone and equal to a harness-built meta regex with the "
                 "same knobs, and the DFA cache knob must not be confused with it; regex-fixed: defaults, oversized "
                 "and invalid regexes. distinct_nontrivial = distinct valid wildcard patterns + distinct regexes."),
        "quick": [st("rel")],
        "thorough": [st("rel"), st("dbg")],
        "floors": {"quick": {"evaluations": 5000000, "distinct_nontrivial": 10000, "wildcard_matches": 20000,
                             "regex_matches": 50000, "regex_non_matches": 50000, "limit_rejects": 1000}},
        "assumptions": COMMON_ASSUMPTIONS + ["compiled-size acceptance is compared with regex-automata itself (built in the harness): what is checked is that the limits are forwarded to the documented knobs, not regex-automata's own accounting"],
    },
    "C05": {
        "rule": ("Every parse (filters and value expressions) is checked for: no panic, completion within 10 s + 1 ms/byte "
                 "(re-measured 3 times alone before being believed), and for errors: line number < number of input "
                 "lines, echoed line equal to that input line, span inside the line and on character boundaries, "
                 "Display output consistent with the hooked span. token-soup: 1-14 random tokens from a 130-token "
                 "alphabet (all operators and aliases, brackets, quote/escape/raw-string fragments, numbers at the "
                 "i64 edges, IP fragments, combining / astral / NUL / U+2028 / BOM characters); mutated: generated "
                 "valid filters cut at a random character and with 1-4 insert/delete/duplicate/truncate/swap edits or "
                 "byte corruption + lossy decoding, also embedded in multi-line input; truncations: 8 feature-rich "
                 "filters cut at EVERY character position (x4 continuations); pathologies: 57 structured inputs of "
                 "10^5 repetitions (flat chains, every nesting construct closed/unclosed, index suffixes, brace lists, "
                 "raw strings with 0/1/255/256/10^5 hashes, leading newlines, errors at the first/last byte, long "
                 "literals/identifiers/numbers, 10^5 call arguments), each in its own process on a 2 MiB-stack thread "
                 "(8 MiB unoptimised) with the stack high-water mark recorded. distinct_nontrivial = distinct inputs."),
        "quick": [st("rel", timeout=1800)],
        "thorough": [st("rel", timeout=7200), st("dbg", timeout=7200), st("asan", timeout=7200), st("fuzz", target="c05", seconds=300)],
        "floors": {"quick": {"evaluations": 150000, "distinct_nontrivial": 60000, "children_run": 57,
                             "parse_errors": 100000, "parsed_ok": 3000}},
        "on_death": "sanitizer",
        "assumptions": COMMON_ASSUMPTIONS + ["'never fails to terminate' is restated as bounded progress (10 s + 1 ms per input byte); 'bounded stack' as no overflow on a 2 MiB thread (optimised) / 8 MiB (unoptimised)"],
        "technique": "runtime monitoring: total-function oracle (no panic / process survives / time budget / error well-formedness via hooked span and Display) over token soup, mutated filters, exhaustive truncations and isolated pathological inputs; thorough adds a coverage-guided (libFuzzer, ASan) workload decided by the same oracle",
    },
    "C14": {
        "rule": ("round-trip: random contexts over the four rich schemes and four degenerate ones (lists but no fields; "
                 "only optional fields; no lists; empty) with nested values to depth 3, non-UTF-8 bytes and map keys, "
                 "i64 extremes, v4/v6 addresses and harness list-matcher state: serialise, compare with the documented "
                 "JSON form, deserialise into a fresh context through from_str / from_slice / from_reader / a "
                 "serde_json::Value tree; contexts must compare equal, read back equal with the deep type invariant, and "
                 "4 generated filters must evaluate identically (and as the reference says); mutants: the document with "
                 "one node replaced (null/bool/int/string/[]/{}/256/-1/2^63/1.5/wrapped/unwrapped/re-encoded), an "
                 "unknown or renamed key, text truncation, a bad `$lists` entry (unregistered, unknown, 33-72 layer "
                 "type, missing/extra keys, bad members) or valid alternative encodings, decided by a type-directed JSON "
                 "acceptance model: accepted documents must load and equal the model's decoding, rejected ones must give "
                 "an error; never a panic, never a stored value of another type; ffi: the C entry points on the same "
                 "documents. distinct_nontrivial = distinct contexts / documents."),
        "quick": [st("rel"), st("asan")],
        "thorough": [st("rel"), st("dbg"), st("asan"),
                     st("miri", only="round-trip", jobs=1, shards=16, name="round-trip", timeout=5400), st("fuzz", target="c14", seconds=240, max_len=4096)],
        "floors": {"quick": {"evaluations": 30000, "distinct_nontrivial": 8000, "round_trips_ok": 5000,
                             "mutants_accepted": 3000, "mutants_rejected": 10000, "ffi_ok": 500}},
        "on_death": "sanitizer",
        "technique": "runtime monitoring: reference-model differential oracle over generated workloads (round trips through five feeds, JSON acceptance model on mutants), AddressSanitizer and Miri stages; thorough adds a coverage-guided (libFuzzer, ASan) workload decided by the accept-implies-round-trip oracle",
        "assumptions": COMMON_ASSUMPTIONS + ["the JSON acceptance model in props/c14.rs is the documented encoding (strings or byte arrays for Bytes, objects or pair arrays for maps)"],
    },
    "C18": {
        "rule": ("storm: 24 filters (three regexes incl. a 24-way alternation, wildcard and strict wildcard, SIMD and "
                 "long-needle and single-byte contains, int/ip/bytes brace lists, $list comparisons, map-each "
                 "comparisons, mapped calls incl. a memoised extra argument, concat, optional fields) x 16 contexts "
                 "(2 KiB values whose outcome alternates from one context to the next, pairs of contexts with "
                 "identical content); the sequential baseline is computed first (twice); then T in {2,4,16,64} threads "
                 "x 3 sharing modes (one filter + one context shared; shared filter, per-thread context clones; "
                 "per-thread recompilation) execute every (filter, context) cell in the same order, released by a "
                 "barrier every 4 cells, for 12 rounds (thorough 400) and every result is compared with the baseline; "
                 "first-use: fresh processes in which 16 threads hit their first contains compilation (USE_AVX2 "
                 "latch) and first regex match (pool creation) simultaneously, compared with a warm sequential run. "
                 "The thorough tier repeats the storm under ThreadSanitizer (std rebuilt and instrumented). "
                 "distinct_nontrivial = distinct (filter, context) cells + (mode, thread count) pairs + processes."),
        "quick": [st("rel", timeout=1800)],
        "thorough": [st("rel", timeout=7200), st("tsan", timeout=7200), st("miri", only="storm", jobs=2, timeout=7200, env={"MIRIFLAGS_EXTRA": "-Zmiri-many-seeds=0..8"})],
        "floors": {"quick": {"evaluations": 800000, "distinct_nontrivial": 400, "children_run": 60}},
        "on_death": "sanitizer",
        "assumptions": COMMON_ASSUMPTIONS + ["the sequential execution in the same process is the reference; schedules are whatever the OS produces for barrier-released threads (plus TSan's happens-before analysis in the thorough tier)"],
        "technique": "runtime monitoring: barrier-released concurrent executions compared with a sequential baseline; fresh-process first-use races; ThreadSanitizer",
    },
    "C20": {
        "rule": ("The exported wirefilter_* functions are called as Rust functions from the rlib beside the Rust API on "
                 "the same inputs. differential: generated filters (valid; broken by a deleted/inserted character, NUL, "
                 "0x1a, newline, truncation; with a trailing NUL) through wirefilter_parse_filter vs Scheme::parse: same "
                 "outcome, error text equal (NUL -> 0x1a), AST JSON equal, C hash = FNV-1a of the JSON, uses/uses_list "
                 "for EVERY field and 3 non-field names, compile, match on 2 contexts built through the C setters "
                 "(typed setters for scalars, JSON for the rest) vs the Rust context, context JSON equal; after "
                 "clear_last_error every failing call must leave exactly the expected message and every succeeding "
                 "one none; invalid-text: non-UTF-8 filters and names, field names with NUL, duplicate field / list; "
                 "setters: 12 random typed-setter / JSON-value calls per context (right type, wrong type, unknown "
                 "field, malformed JSON) + bad whole-context JSON: boolean result as the Rust API decides, message on "
                 "every failure, stored values keep the declared type; last-error: 4 threads x 10 rounds of failing / "
                 "succeeding / clearing calls, each thread must only ever see its own message; panics: a function "
                 "definition that panics on demand in check_param (parse), compile or its body (match) with the "
                 "catcher enabled must give Status::Panic with the message in last-error, must not unwind, and the "
                 "next call on the thread must work; json-value-mirror: 90 near-valid JSON texts x every field + "
                 "one-character mutations of valid documents through the per-field JSON setter vs "
                 "Type::deserialize_value on the same text (same accept/reject, same stored value, message on "
                 "refusal). distinct_nontrivial = distinct filter texts / sequences."),
        "quick": [st("rel"), st("asan")],
        "thorough": [st("rel"), st("dbg"), st("asan", env={"ASAN_OPTIONS": "halt_on_error=1:abort_on_error=1:detect_leaks=1"}),
                     st("miri", only="panics", jobs=1, shards=8, name="panics", timeout=5400), st("miri", only="setters", jobs=1, shards=8, name="setters", timeout=5400),
                     st("miri", only="differential", jobs=1, shards=8, name="differential", timeout=5400),
                     st("miri", only="error-sequences", jobs=1, shards=8, name="error-sequences", timeout=5400)],
        "floors": {"quick": {"evaluations": 150000, "distinct_nontrivial": 3000, "matches_compared": 2500,
                             "parse_errors_compared": 500, "setter_failures": 8000, "setter_successes": 800,
                             "panics_reported_as_status": 150, "json_value_accepted_by_both": 2000,
                             "json_value_refused_by_both": 5000}},
        "on_death": "sanitizer",
        "assumptions": COMMON_ASSUMPTIONS + ["the C functions are exercised through the rlib (same code as the cdylib, minus the C calling convention boundary); byte values handed to the context are kept alive by the harness as the C contract requires"],
    },
}
