"""Per-property configuration of the supervisor: which build variants run in
which tier, the non-triviality rule reported in the evidence, coverage floors."""


def st(variant, **kw):
    d = {"variant": variant}
    d.update(kw)
    return d


COMMON_ASSUMPTIONS = [
    "the reference semantics (harness/src/refsem.rs) states the property correctly",
    "a finite sample of programs/inputs stands for the quantifier; exhaustive only where a family is listed under exhaustive_families",
    "rustc/LLVM, std and the third-party crates behave as documented",
]

PROPS = {
    "C01": {
        "rule": ("matrix: every (type, operator alias, lhs boundary value | absent, rhs boundary literal, "
                 "mandatory|optional field, nil-not-equal setting) cell, enumerated completely; chains: every "
                 "4-operator chain over and/xor/or with optional not per operand x all 32 truth assignments, "
                 "enumerated completely; random: type-directed filters (depth<=5, not/and/xor/or, redundant "
                 "parentheses, random aliases/whitespace/literal spellings) x 8 contexts each. A case is "
                 "non-trivial and counted as distinct by the hash of (nil-not-equal, canonical filter text, "
                 "context) when it is a matrix/chain cell or a random filter with >=1 logical operator."),
        "quick": [st("rel")],
        "thorough": [st("rel"), st("dbg")],
        "floors": {"quick": {"evaluations": 150000, "distinct_nontrivial": 40000}},
        "assumptions": COMMON_ASSUMPTIONS,
    },
    "C02": {
        "rule": ("random: type-directed filters over arrays/maps nested to depth 3 with [n]/[\"key\"]/[*] paths "
                 "(indexes 0,1,2,3,5,2^31,2^32-1; keys present/absent/empty/non-ASCII), element-wise not/and/or/xor, "
                 "any()/all() over logical arguments and over boolean-array values, x 5 random contexts (empty, "
                 "singleton, ragged, absent containers); values: [*]-free value expressions x 4 contexts. "
                 "Non-trivial = some [*] path evaluated to >=2 elements or some path has >=2 index steps (values: "
                 ">=2 steps or a present indexed value); distinct by hash of (canonical text, context)."),
        "quick": [st("rel")],
        "thorough": [st("rel"), st("dbg"), st("asan")],
        "floors": {"quick": {"evaluations": 60000, "distinct_nontrivial": 20000,
                             "evals_with_ragged_operands": 1000}},
        "assumptions": COMMON_ASSUMPTIONS,
    },
    "C03": {
        "rule": ("random: filters whose comparisons / quantifier arguments / call arguments contain calls of the "
                 "harness function family (identity, len, upper, sum with 2 optional parameters, head, tally, "
                 "keepeven (absent on odd), neg, glue (field-only + literal-only + optional), built-in concat, "
                 "tag (definition context)), plain and mapped over arrays and maps, nested to depth 3, every call "
                 "site under its own function name; values: value expressions with a call at the base; ctx: calls "
                 "of the context-carrying definition with 1..3 arguments, nested and mapped. Observed: the "
                 "(site, arguments, result) log written by the functions and the definition-context event log. "
                 "Non-trivial = at least one call was evaluated; distinct by hash of (canonical text, context)."),
        "quick": [st("rel")],
        "thorough": [st("rel"), st("dbg"), st("asan")],
        "floors": {"quick": {"evaluations": 30000, "distinct_nontrivial": 15000, "calls_observed": 30000,
                             "ctx_events": 10000}},
        "assumptions": COMMON_ASSUMPTIONS,
    },
}
