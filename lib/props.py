"""Per-property configuration of the supervisor: which build variants run in
which tier, the non-triviality rule reported in the evidence, coverage floors."""


def st(variant, **kw):
    d = {"variant": variant}
    d.update(kw)
    return d


COMMON_ASSUMPTIONS = [
    "the reference semantics (harness/src/refsem.rs) states the property correctly",
    "a finite sample of programs/inputs stands for the quantifier; exhaustive only where a family is listed under exhaustive_families",
    "rustc/LLVM, std and the third-party crates behave as documented",
]

PROPS = {
    "C01": {
        "rule": ("matrix: every (type, operator alias, lhs boundary value | absent, rhs boundary literal, "
                 "mandatory|optional field, nil-not-equal setting) cell, enumerated completely; chains: every "
                 "4-operator chain over and/xor/or with optional not per operand x all 32 truth assignments, "
                 "enumerated completely; random: type-directed filters (depth<=5, not/and/xor/or, redundant "
                 "parentheses, random aliases/whitespace/literal spellings) x 8 contexts each. A case is "
                 "non-trivial and counted as distinct by the hash of (nil-not-equal, canonical filter text, "
                 "context) when it is a matrix/chain cell or a random filter with >=1 logical operator."),
        "quick": [st("rel")],
        "thorough": [st("rel"), st("dbg")],
        "floors": {"quick": {"evaluations": 150000, "distinct_nontrivial": 40000}},
        "assumptions": COMMON_ASSUMPTIONS,
    },
}
