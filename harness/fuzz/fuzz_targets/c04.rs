#![no_main]
// libFuzzer as a workload generator; the oracle is wfverif::fuzz::one (see harness/src/fuzz.rs)
use libfuzzer_sys::fuzz_target;

fuzz_target!(|data: &[u8]| {
    if let Some((sig, detail)) = wfverif::fuzz::one("c04", data) {
        eprintln!("VERIF-ORACLE {} {}", sig, detail);
        std::process::abort();
    }
});
