//! Small independent matchers used as references for `wildcard`,
//! `strict wildcard` and (a subset of) `matches`.

#[derive(Clone, Debug, PartialEq, Eq)]
pub enum WTok {
    Any,
    Byte(u8),
}

#[derive(Clone, Debug, PartialEq, Eq)]
pub enum WErr {
    InvalidEscape,
    DoubleStar,
}

/// Parse a wildcard pattern (already string-unescaped bytes).
pub fn wildcard_parse(pat: &[u8]) -> Result<Vec<WTok>, WErr> {
    let mut out = Vec::new();
    let mut i = 0;
    while i < pat.len() {
        match pat[i] {
            b'\\' => {
                if i + 1 < pat.len() && (pat[i + 1] == b'*' || pat[i + 1] == b'\\') {
                    out.push(WTok::Byte(pat[i + 1]));
                    i += 2;
                } else {
                    return Err(WErr::InvalidEscape);
                }
            }
            b'*' => {
                if out.last() == Some(&WTok::Any) {
                    return Err(WErr::DoubleStar);
                }
                out.push(WTok::Any);
                i += 1;
            }
            c => {
                out.push(WTok::Byte(c));
                i += 1;
            }
        }
    }
    Ok(out)
}

pub fn wildcard_star_count(toks: &[WTok]) -> usize {
    toks.iter().filter(|t| **t == WTok::Any).count()
}

pub fn wildcard_match_toks(toks: &[WTok], s: &[u8], fold: bool) -> bool {
    // dynamic programming over (token index, string index)
    let n = toks.len();
    let m = s.len();
    let mut cur = vec![false; m + 1];
    cur[0] = true;
    for t in toks.iter().take(n) {
        let mut next = vec![false; m + 1];
        match t {
            WTok::Any => {
                let mut seen = false;
                for j in 0..=m {
                    seen = seen || cur[j];
                    next[j] = seen;
                }
            }
            WTok::Byte(b) => {
                for j in 0..m {
                    if cur[j] {
                        let eq = if fold {
                            s[j].to_ascii_lowercase() == b.to_ascii_lowercase()
                        } else {
                            s[j] == *b
                        };
                        if eq {
                            next[j + 1] = true;
                        }
                    }
                }
            }
        }
        cur = next;
    }
    cur[m]
}

/// None when the pattern is invalid.
pub fn wildcard_is_match(pat: &[u8], s: &[u8], fold: bool) -> Option<bool> {
    wildcard_parse(pat)
        .ok()
        .map(|t| wildcard_match_toks(&t, s, fold))
}

// ---------------------------------------------------------------------------
// regex subset

#[derive(Clone, Debug)]
pub enum Re {
    Empty,
    Set(Box<[bool; 256]>),
    Cat(Vec<Re>),
    Alt(Vec<Re>),
    Rep(Box<Re>, usize, Option<usize>),
    Start,
    End,
}

struct P<'a> {
    s: &'a [u8],
    i: usize,
}

fn set_of(f: impl Fn(u8) -> bool) -> Box<[bool; 256]> {
    let mut a = Box::new([false; 256]);
    for b in 0..=255u8 {
        a[b as usize] = f(b);
    }
    a
}

fn hexval(c: u8) -> Option<u8> {
    match c {
        b'0'..=b'9' => Some(c - b'0'),
        b'a'..=b'f' => Some(c - b'a' + 10),
        b'A'..=b'F' => Some(c - b'A' + 10),
        _ => None,
    }
}

impl<'a> P<'a> {
    fn peek(&self) -> Option<u8> {
        self.s.get(self.i).copied()
    }
    fn alt(&mut self) -> Option<Re> {
        let mut alts = vec![self.cat()?];
        while self.peek() == Some(b'|') {
            self.i += 1;
            alts.push(self.cat()?);
        }
        Some(if alts.len() == 1 {
            alts.pop().unwrap()
        } else {
            Re::Alt(alts)
        })
    }
    fn cat(&mut self) -> Option<Re> {
        let mut items = Vec::new();
        while let Some(c) = self.peek() {
            if c == b'|' || c == b')' {
                break;
            }
            let atom = self.atom()?;
            let atom = self.quant(atom)?;
            items.push(atom);
        }
        Some(match items.len() {
            0 => Re::Empty,
            1 => items.pop().unwrap(),
            _ => Re::Cat(items),
        })
    }
    fn quant(&mut self, atom: Re) -> Option<Re> {
        let (min, max) = match self.peek() {
            Some(b'?') => (0, Some(1)),
            Some(b'*') => (0, None),
            Some(b'+') => (1, None),
            _ => return Some(atom),
        };
        if matches!(atom, Re::Start | Re::End) {
            return None; // outside the subset
        }
        self.i += 1;
        // a second quantifier or laziness marker is outside the subset
        if matches!(self.peek(), Some(b'?') | Some(b'*') | Some(b'+') | Some(b'{')) {
            return None;
        }
        Some(Re::Rep(Box::new(atom), min, max))
    }
    fn escape(&mut self, in_class: bool) -> Option<Box<[bool; 256]>> {
        // after the backslash
        let c = self.peek()?;
        self.i += 1;
        Some(match c {
            b'x' => {
                let h = hexval(self.peek()?)?;
                self.i += 1;
                let l = hexval(self.peek()?)?;
                self.i += 1;
                let b = h * 16 + l;
                set_of(move |x| x == b)
            }
            b'd' => set_of(|x| x.is_ascii_digit()),
            b'D' if !in_class => set_of(|x| !x.is_ascii_digit()),
            b'w' => set_of(|x| x.is_ascii_alphanumeric() || x == b'_'),
            b's' => set_of(|x| matches!(x, b' ' | b'\t' | b'\n' | b'\r' | 0x0b | 0x0c)),
            b'n' => set_of(|x| x == b'\n'),
            b't' => set_of(|x| x == b'\t'),
            b'r' => set_of(|x| x == b'\r'),
            b'\\' | b'.' | b'+' | b'*' | b'?' | b'(' | b')' | b'|' | b'[' | b']' | b'{'
            | b'}' | b'^' | b'$' | b'-' | b'"' | b'/' => set_of(move |x| x == c),
            _ => return None,
        })
    }
    fn class(&mut self) -> Option<Re> {
        // after '['
        let mut neg = false;
        if self.peek() == Some(b'^') {
            neg = true;
            self.i += 1;
        }
        let mut set = [false; 256];
        let mut first = true;
        loop {
            let c = self.peek()?;
            if c == b']' {
                if first {
                    return None; // `[]...` is outside the subset
                }
                self.i += 1;
                break;
            }
            first = false;
            // one item: single or range
            let lo: Box<[bool; 256]> = if c == b'\\' {
                self.i += 1;
                self.escape(true)?
            } else if c == b'[' || c >= 0x80 {
                return None;
            } else {
                self.i += 1;
                set_of(move |x| x == c)
            };
            if self.peek() == Some(b'-') && self.s.get(self.i + 1).copied() != Some(b']') {
                // range
                let lo_b = single(&lo)?;
                self.i += 1;
                let c2 = self.peek()?;
                let hi: Box<[bool; 256]> = if c2 == b'\\' {
                    self.i += 1;
                    self.escape(true)?
                } else if c2 == b'[' || c2 >= 0x80 {
                    return None;
                } else {
                    self.i += 1;
                    set_of(move |x| x == c2)
                };
                let hi_b = single(&hi)?;
                if hi_b < lo_b {
                    return None;
                }
                for b in lo_b..=hi_b {
                    set[b as usize] = true;
                }
            } else {
                for b in 0..256 {
                    set[b] |= lo[b];
                }
            }
        }
        if neg {
            for b in set.iter_mut() {
                *b = !*b;
            }
        }
        Some(Re::Set(Box::new(set)))
    }
    fn atom(&mut self) -> Option<Re> {
        let c = self.peek()?;
        self.i += 1;
        Some(match c {
            b'(' => {
                if self.peek() == Some(b'?') {
                    // only (?: ... ) is in the subset
                    if self.s.get(self.i + 1).copied() == Some(b':') {
                        self.i += 2;
                    } else {
                        return None;
                    }
                }
                let inner = self.alt()?;
                if self.peek() != Some(b')') {
                    return None;
                }
                self.i += 1;
                inner
            }
            b'[' => self.class()?,
            b'.' => Re::Set(set_of(|x| x != b'\n')),
            b'^' => Re::Start,
            b'$' => Re::End,
            b'\\' => Re::Set(self.escape(false)?),
            b'*' | b'+' | b'?' | b'{' | b'}' | b')' | b']' | b'|' => return None,
            c if c >= 0x80 => {
                // a non-ASCII character written literally: in byte mode it stands for
                // the sequence of its UTF-8 bytes (one atom: a quantifier after it
                // applies to the whole character). The pattern is a &str, so the
                // sequence is well formed.
                let extra = match c {
                    0xc0..=0xdf => 1,
                    0xe0..=0xef => 2,
                    0xf0..=0xf7 => 3,
                    _ => return None,
                };
                let mut seq = vec![Re::Set(set_of(move |x| x == c))];
                for _ in 0..extra {
                    let b = self.peek()?;
                    if !(0x80..=0xbf).contains(&b) {
                        return None;
                    }
                    self.i += 1;
                    seq.push(Re::Set(set_of(move |x| x == b)));
                }
                Re::Cat(seq)
            }
            c => Re::Set(set_of(move |x| x == c)),
        })
    }
}

fn single(s: &[bool; 256]) -> Option<u8> {
    let mut it = (0..256usize).filter(|b| s[*b]);
    let a = it.next()?;
    if it.next().is_some() {
        None
    } else {
        Some(a as u8)
    }
}

pub fn regex_parse(pat: &str) -> Option<Re> {
    let mut p = P {
        s: pat.as_bytes(),
        i: 0,
    };
    let re = p.alt()?;
    if p.i != p.s.len() {
        return None;
    }
    Some(re)
}

fn m(re: &Re, s: &[u8], i: usize, k: &mut dyn FnMut(usize) -> bool) -> bool {
    match re {
        Re::Empty => k(i),
        Re::Set(set) => i < s.len() && set[s[i] as usize] && k(i + 1),
        Re::Start => i == 0 && k(i),
        Re::End => i == s.len() && k(i),
        Re::Cat(items) => cat(items, s, i, k),
        Re::Alt(alts) => alts.iter().any(|a| m(a, s, i, k)),
        Re::Rep(inner, min, max) => rep(inner, *min, *max, s, i, k, 0),
    }
}

fn cat(items: &[Re], s: &[u8], i: usize, k: &mut dyn FnMut(usize) -> bool) -> bool {
    match items.split_first() {
        None => k(i),
        Some((first, rest)) => m(first, s, i, &mut |j| cat(rest, s, j, k)),
    }
}

fn rep(
    inner: &Re,
    min: usize,
    max: Option<usize>,
    s: &[u8],
    i: usize,
    k: &mut dyn FnMut(usize) -> bool,
    count: usize,
) -> bool {
    if count >= min && k(i) {
        return true;
    }
    if let Some(mx) = max {
        if count >= mx {
            return false;
        }
    }
    m(inner, s, i, &mut |j| {
        if j == i {
            // an empty iteration succeeded here, so any number of further
            // empty iterations does too: the minimum count can be met
            k(i)
        } else {
            rep(inner, min, max, s, j, k, count + 1)
        }
    })
}

/// Unanchored search; `None` if the pattern is outside the modelled subset.
pub fn regex_is_match(pat: &str, s: &[u8]) -> Option<bool> {
    let re = regex_parse(pat)?;
    Some(regex_search(&re, s))
}

pub fn regex_search(re: &Re, s: &[u8]) -> bool {
    (0..=s.len()).any(|start| m(re, s, start, &mut |_| true))
}
