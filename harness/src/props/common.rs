//! Shared pieces of the behavioural monitors: a scheme + its description, the
//! parse/compile/execute-versus-RefSem comparison, witness shrinking.

use crate::ast::*;
use crate::engine::{build_ctx, build_scheme, take_call_log, take_list_log, take_monitor_errors};
use crate::gen::{show_ctx, Ctx};
use crate::refsem::{Eval, ListState};
use crate::report::{guard, Local, Run};
use crate::rv::{res_from_engine, show_res, RRes};
use serde_json::{json, Value as J};
use wirefilter::{ExecutionContext, Scheme};

pub struct Eng {
    pub env: Env,
    pub scheme: Scheme,
}

impl Eng {
    pub fn new(env: Env) -> Eng {
        let scheme = build_scheme(&env);
        Eng { env, scheme }
    }
    /// The scheme comes from a builder that also refused a redefinition of
    /// every identifier and list (must make no difference).
    pub fn new_after_refusals(env: Env) -> Eng {
        let scheme = crate::engine::build_scheme_after_refusals(&env).expect("harness scheme: redefinitions are refused");
        Eng { env, scheme }
    }
    pub fn ctx(&self, vals: &Ctx, lists: &ListState) -> ExecutionContext<'static> {
        // the returned context borrows nothing from `self` (values are owned)
        build_ctx(&self.scheme, &self.env, vals, lists)
    }
}

/// Short structural description used in violation signatures.
pub fn shape(e: &Expr, depth: usize) -> String {
    if depth == 0 {
        return "..".into();
    }
    match e {
        Expr::Cmp(p, op) => format!("Cmp({},{})", path_shape(p), op_shape(op)),
        Expr::Not(e) => format!("Not({})", shape(e, depth - 1)),
        Expr::Paren(e) => format!("Paren({})", shape(e, depth - 1)),
        Expr::Comb(op, items) => format!(
            "{:?}[{}]",
            op,
            items
                .iter()
                .map(|i| shape(i, depth - 1))
                .collect::<Vec<_>>()
                .join(",")
        ),
        Expr::Quant(q, a) => format!(
            "{:?}({})",
            q,
            match a {
                QArg::Path(p) => format!("path:{}", path_shape(p)),
                QArg::Logical(e) => shape(e, depth - 1),
            }
        ),
    }
}

pub fn path_shape(p: &Path) -> String {
    let mut s = match &p.base {
        Base::Field(_) => "f".to_string(),
        Base::Call(c) => format!("call{}{}", c.args.len(), if crate::refsem::call_is_mapped(c) { "m" } else { "" }),
    };
    for i in &p.idx {
        s.push_str(match i {
            Idx::Arr(_) => "[n]",
            Idx::Key(_) => "[k]",
            Idx::Each => "[*]",
        });
    }
    s
}

pub fn op_shape(op: &CmpOp) -> String {
    match op {
        CmpOp::IsTrue => "IsTrue".into(),
        CmpOp::Ord(o, l) => format!("{:?}/{}", o, l.ty().short()),
        CmpOp::BitAnd(_) => "BitAnd".into(),
        CmpOp::Contains(_) => "Contains".into(),
        CmpOp::Matches(_) => "Matches".into(),
        CmpOp::Wildcard { strict, .. } => format!("Wildcard{}", if *strict { "S" } else { "" }),
        CmpOp::InSet(s) => format!("InSet/{}", s.ty().short()),
        CmpOp::InList(_) => "InList".into(),
    }
}

/// Direct boolean sub-expressions (same type as the whole when that is Bool).
fn bool_children(env: &Env, e: &Expr) -> Vec<Expr> {
    let mut out = Vec::new();
    let mut push = |c: &Expr| {
        if crate::refsem::type_expr(env, c) == Ok(crate::refsem::ETy::Bool) {
            out.push(c.clone());
        }
    };
    match e {
        Expr::Cmp(..) => {}
        Expr::Not(c) | Expr::Paren(c) => push(c),
        Expr::Comb(op, items) => {
            for it in items {
                push(it);
            }
            // also try dropping one operand of a long chain
            if items.len() > 2 {
                for k in 0..items.len() {
                    let mut rest = items.clone();
                    rest.remove(k);
                    push(&Expr::Comb(*op, rest));
                }
            }
        }
        Expr::Quant(..) => {}
    }
    out
}

/// Greedy shrinking: descend into a boolean child as long as the failure
/// predicate still holds for it.
pub fn shrink(env: &Env, e: &Expr, fails: &dyn Fn(&Expr) -> bool) -> Expr {
    let mut cur = e.clone();
    'outer: loop {
        for c in bool_children(env, &cur) {
            if fails(&c) {
                cur = c;
                continue 'outer;
            }
        }
        return cur;
    }
}

pub enum Outcome {
    Ok(bool),
    ParseErr(String),
    Panic(String, &'static str),
    SchemeMismatch,
}

/// parse + compile + execute one filter text on one engine context
pub fn run_engine(eng: &Eng, text: &str, ctx: &ExecutionContext<'_>) -> Outcome {
    let ast = match guard(|| eng.scheme.parse(text).map_err(|e| e.to_string())) {
        Ok(Ok(a)) => a,
        Ok(Err(e)) => return Outcome::ParseErr(e),
        Err(p) => return Outcome::Panic(p, "parse"),
    };
    let filter = match guard(|| ast.compile()) {
        Ok(f) => f,
        Err(p) => return Outcome::Panic(p, "compile"),
    };
    match guard(|| filter.execute(ctx)) {
        Ok(Ok(b)) => Outcome::Ok(b),
        Ok(Err(_)) => Outcome::SchemeMismatch,
        Err(p) => Outcome::Panic(p, "execute"),
    }
}

pub fn refsem_filter(env: &Env, e: &Expr, vals: &Ctx, lists: &ListState) -> Result<bool, String> {
    let mut ev = Eval::new(env, vals, lists);
    let b = ev.filter(e);
    match ev.unsupported {
        Some(u) => Err(u),
        None => Ok(b),
    }
}

/// Compare the engine with RefSem for a well-typed generated filter on a set
/// of contexts. Returns the number of mismatching contexts (violations are
/// recorded in `run`).
#[allow(clippy::too_many_arguments)]
pub fn check_filter(
    run: &Run,
    l: &mut Local,
    prop: &str,
    family: &str,
    index: u64,
    eng: &Eng,
    expr: &Expr,
    text: &str,
    ctxs: &[(Ctx, ListState)],
) -> usize {
    check_filter_obs(run, l, prop, family, index, eng, expr, text, ctxs, &mut |_, _, _, _| {})
}

/// Like `check_filter`, additionally handing every RefSem evaluation (and its
/// context number) to `obs` so that monitors can count what was observed.
#[allow(clippy::too_many_arguments)]
pub fn check_filter_obs(
    run: &Run,
    l: &mut Local,
    prop: &str,
    family: &str,
    index: u64,
    eng: &Eng,
    expr: &Expr,
    text: &str,
    ctxs: &[(Ctx, ListState)],
    obs: &mut dyn FnMut(&Eval<'_>, usize, &[crate::refsem::CallEvent], &[crate::refsem::ListEvent]),
) -> usize {
    let mut bad = 0;
    // parse + compile once
    let ast = match guard(|| eng.scheme.parse(text).map_err(|e| e.to_string())) {
        Ok(Ok(a)) => a,
        Ok(Err(e)) => {
            run.violation(
                &format!("{}/parse-rejects-well-typed/{}", prop, error_kind(&e)),
                "accepts-well-typed",
                family,
                index,
                json!({"filter": text, "error": e, "nil_ne": eng.env.nil_ne}),
            );
            return 1;
        }
        Err(p) => {
            run.violation(
                &format!("{}/panic-in-parse/{}", prop, first_line(&p)),
                "no-panic",
                family,
                index,
                json!({"filter": text, "panic": p}),
            );
            return 1;
        }
    };
    let filter = match guard(|| ast.compile()) {
        Ok(f) => f,
        Err(p) => {
            run.violation(
                &format!("{}/panic-in-compile/{}", prop, first_line(&p)),
                "no-panic",
                family,
                index,
                json!({"filter": text, "panic": p}),
            );
            return 1;
        }
    };
    for (ci, (vals, lists)) in ctxs.iter().enumerate() {
        l.evals += 1;
        let mut ev = Eval::new(&eng.env, vals, lists);
        let expected = ev.filter(expr);
        if ev.unsupported.is_some() {
            l.count("refsem_unsupported");
            continue;
        }
        let ectx = eng.ctx(vals, lists);
        let _ = take_call_log();
        let _ = take_list_log();
        let got = guard(|| filter.execute(&ectx));
        let calls = take_call_log();
        let queries = take_list_log();
        obs(&ev, ci, &calls, &queries);
        let merrs = take_monitor_errors();
        if !merrs.is_empty() {
            run.violation(
                &format!("{}/ill-formed-value/{}", prop, shape(expr, 2)),
                "deep-type-invariant",
                family,
                index,
                json!({"filter": text, "ctx": show_ctx(&eng.env, vals), "errors": merrs}),
            );
            bad += 1;
        }
        match got {
            Ok(Ok(b)) if b == expected => {}
            Ok(Ok(b)) => {
                bad += 1;
                // shrink to a minimal failing sub-expression on this context
                let fails = |c: &Expr| -> bool {
                    let t = crate::printer::print_filter(&eng.env, c, None);
                    let want = match refsem_filter(&eng.env, c, vals, lists) {
                        Ok(b) => b,
                        Err(_) => return false,
                    };
                    match run_engine(eng, &t, &ectx) {
                        Outcome::Ok(b) => b != want,
                        _ => false,
                    }
                };
                let small = shrink(&eng.env, expr, &fails);
                let small_text = crate::printer::print_filter(&eng.env, &small, None);
                run.violation(
                    &format!("{}/wrong-result/{}", prop, shape(&small, 3)),
                    "refsem-result",
                    family,
                    index,
                    json!({
                        "filter": text,
                        "expected": expected,
                        "got": b,
                        "nil_ne": eng.env.nil_ne,
                        "ctx": show_ctx(&eng.env, vals),
                        "minimal_filter": small_text,
                    }),
                );
            }
            Ok(Err(_)) => {
                bad += 1;
                run.violation(
                    &format!("{}/scheme-mismatch-on-own-context", prop),
                    "executes",
                    family,
                    index,
                    json!({"filter": text}),
                );
            }
            Err(p) => {
                bad += 1;
                run.violation(
                    &format!("{}/panic-in-execute/{}", prop, first_line(&p)),
                    "no-panic",
                    family,
                    index,
                    json!({"filter": text, "panic": p, "ctx": show_ctx(&eng.env, vals)}),
                );
            }
        }
    }
    bad
}

/// The message part of a rendered parse error (after the caret run), with
/// digits blanked so that the signature does not depend on the input.
pub fn error_kind(rendered: &str) -> String {
    let line = rendered
        .lines()
        .find(|l| l.trim_start().starts_with('^'))
        .unwrap_or("");
    let msg = line.trim_start().trim_start_matches('^').trim();
    msg.chars()
        .map(|c| if c.is_ascii_digit() { '#' } else { c })
        .take(120)
        .collect()
}

pub fn first_line(s: &str) -> String {
    let l = s.lines().next().unwrap_or("");
    // keep the message and the location; data quoted in the message (`...`) is
    // volatile and would make every occurrence a signature of its own
    let (msg, loc) = match l.rfind(" @ ") {
        Some(k) => (&l[..k], &l[k..]),
        None => (l, ""),
    };
    let mut out = String::new();
    let mut quoted = false;
    for ch in msg.chars() {
        if ch == '`' {
            quoted = !quoted;
            if quoted {
                out.push_str("`..`");
            }
            continue;
        }
        if !quoted {
            out.push(ch);
        }
    }
    let out: String = out.chars().take(120).collect();
    format!("{}{}", out, loc.chars().take(100).collect::<String>())
}

pub fn value_result_json(r: &RRes) -> J {
    json!(show_res(r))
}

pub fn engine_value(
    r: Result<wirefilter::LhsValue<'_>, wirefilter::Type>,
) -> Result<RRes, String> {
    res_from_engine(&r)
}
