//! C05 — parsing is total: any input yields an AST or a well-formed error.

use super::common::*;
use crate::gen::*;
use crate::printer::{print_filter, print_value_expr};
use crate::prng::Rng;
use crate::report::{guard, hash_str, Local, Run};
use serde_json::json;
use std::time::{Duration, Instant};

pub(crate) const TOKENS: &[&str] = &[
    "and", "&&", "or", "||", "xor", "^^", "not", "!", "eq", "==", "ne", "!=", "ge", ">=", "le", "<=", "gt", ">",
    "lt", "<", "&", "bitwise_and", "contains", "matches", "~", "wildcard", "strict wildcard", "strict", "in",
    "any", "all", "(", ")", "[", "]", "{", "}", "[*]", "*", ",", "..", ".", "$", "$a", "$a.b", "$.", "\"", "\"a\"",
    "\"\\", "\\x", "\\xZZ", "\\\"", "\\777", "r\"", "r#\"", "\"#", "r###", "#", "'", " ", "  ", "\n", "\r", "\t",
    "0", "1", "-1", "-", "--", "0x", "0x7fffffffffffffff", "9223372036854775807", "9223372036854775808",
    "-9223372036854775808", "-9223372036854775809", "08", "1.2.3.4", "1.2.3", "::", "::1", "2001:db8::/32", "/33",
    "10.0.0.0/8", "aa:bb", "aa:bb:", "zz", "num_m", "str_m", "ipa_m", "tru_m", "l_num_m", "m_str_m", "ll_tru_m",
    "http.host", "http.", ".host", "upper1", "lens1", "join1", "sum1", "neg1", "nosuch", "\u{e9}", "\u{301}",
    "\u{1F600}", "\u{2028}", "\0", "\u{7f}", "\u{feff}", "e\u{301}", "a\u{0}b",
];

/// Checks every clause of the property for one parse outcome.
/// `kind`: 0 = filter, 1 = value expression
fn check_parse(run: &Run, l: &mut Local, fam: &str, i: u64, eng: &Eng, input: &str, kind: u8) {
    l.evals += 1;
    let budget = Duration::from_millis(10_000 + input.len() as u64);
    let t0 = Instant::now();
    let res = guard(|| -> Result<(), (String, (usize, usize, usize, String))> {
        if kind == 0 {
            eng.scheme
                .parse(input)
                .map(|_| ())
                .map_err(|e| (e.to_string(), own_span(e.verif_span())))
        } else {
            eng.scheme
                .parse_value(input)
                .map(|_| ())
                .map_err(|e| (e.to_string(), own_span(e.verif_span())))
        }
    });
    let dt = t0.elapsed();
    if dt > budget {
        // re-check alone before believing it
        let mut fastest = dt;
        for _ in 0..3 {
            let t = Instant::now();
            let _ = guard(|| {
                if kind == 0 {
                    eng.scheme.parse(input).map(|_| ()).map_err(|_| ())
                } else {
                    eng.scheme.parse_value(input).map(|_| ()).map_err(|_| ())
                }
            });
            fastest = fastest.min(t.elapsed());
        }
        if fastest > budget {
            run.violation(
                &format!("C05/exceeds-time-budget/{}", fam),
                "terminates",
                fam,
                i,
                json!({"input_len": input.len(), "input_prefix": prefix(input), "seconds": fastest.as_secs_f64()}),
            );
        } else {
            l.count("slow_once");
        }
    }
    match res {
        Err(p) => run.violation(
            &format!("C05/parse-panics/{}", first_line(&p)),
            "no-panic",
            fam,
            i,
            json!({"input": prefix(input), "input_len": input.len(), "kind": if kind == 0 { "filter" } else { "value" }, "panic": p}),
        ),
        Ok(Ok(())) => l.count("parsed_ok"),
        Ok(Err((rendered, (line_no, start, len, line)))) => {
            l.count("parse_errors");
            if let Some(problem) = check_error(input, &rendered, line_no, start, len, &line) {
                run.violation(
                    &format!("C05/ill-formed-error/{}", problem.0),
                    "error-designates-input",
                    fam,
                    i,
                    json!({"input": prefix(input), "input_len": input.len(), "problem": problem.1,
                           "rendered": prefix(&rendered), "line_number": line_no, "span_start": start, "span_len": len}),
                );
            }
        }
    }
}

fn own_span(s: (usize, usize, usize, &str)) -> (usize, usize, usize, String) {
    (s.0, s.1, s.2, s.3.to_string())
}

fn prefix(s: &str) -> String {
    let mut out: String = s.chars().take(300).collect();
    if s.len() > out.len() {
        out.push_str("…");
    }
    out
}

/// Well-formedness of a parse error against the input it came from, both from
/// the hooked fields and from the rendered text.
pub(crate) fn check_error(
    input: &str,
    rendered: &str,
    line_no: usize,
    start: usize,
    len: usize,
    line: &str,
) -> Option<(&'static str, String)> {
    let lines: Vec<&str> = input.split('\n').collect();
    if line_no >= lines.len() {
        return Some(("line-number-out-of-range", format!("line {} of {}", line_no, lines.len())));
    }
    if lines[line_no] != line {
        return Some(("echoed-line-is-not-that-input-line", format!("{:?} vs {:?}", prefix(line), prefix(lines[line_no]))));
    }
    if start > line.len() || start + len > line.len() {
        return Some(("span-outside-line", format!("start {} len {} line length {}", start, len, line.len())));
    }
    if !line.is_char_boundary(start) || !line.is_char_boundary(start + len) {
        return Some(("span-not-on-char-boundary", format!("start {} len {}", start, len)));
    }
    // the rendered form says the same
    let header = format!("Filter parsing error ({}:{}):\n", line_no + 1, start + 1);
    if !rendered.starts_with(&header) {
        return Some(("rendered-header-differs", prefix(rendered)));
    }
    let rest = &rendered[header.len()..];
    let expect_line = format!("{}\n", line);
    if !rest.starts_with(&expect_line) {
        return Some(("rendered-line-differs", prefix(rest)));
    }
    let marker = &rest[expect_line.len()..];
    let spaces = marker.bytes().take_while(|b| *b == b' ').count();
    let carets = marker[spaces..].bytes().take_while(|b| *b == b'^').count();
    if spaces != start || carets != len.max(1) {
        return Some(("rendered-marker-differs", format!("{} spaces {} carets", spaces, carets)));
    }
    None
}

fn mutate_text(r: &mut Rng, text: &str) -> String {
    let mut chars: Vec<char> = text.chars().collect();
    let edits = 1 + r.below(4);
    for _ in 0..edits {
        if chars.is_empty() {
            chars.push('(');
            continue;
        }
        let pos = r.below(chars.len());
        match r.below(7) {
            0 => {
                let ins = TOKENS[r.below(TOKENS.len())];
                for (k, c) in ins.chars().enumerate() {
                    chars.insert((pos + k).min(chars.len()), c);
                }
            }
            1 => {
                chars.remove(pos);
            }
            2 => {
                let c = chars[pos];
                chars.insert(pos, c);
            }
            3 => chars.truncate(pos),
            4 => {
                let specials = ['"', '\\', '#', '(', ')', '[', ']', '{', '}', '*', '$', '\n', '\u{e9}', '\0', '.', ':', '-', ' '];
                chars[pos] = specials[r.below(specials.len())];
            }
            5 => {
                // drop a run
                let end = (pos + 1 + r.below(6)).min(chars.len());
                chars.drain(pos..end);
            }
            _ => {
                // swap two neighbours
                if pos + 1 < chars.len() {
                    chars.swap(pos, pos + 1);
                }
            }
        }
    }
    chars.into_iter().collect()
}

fn corrupt_bytes(r: &mut Rng, text: &str) -> String {
    let mut b = text.as_bytes().to_vec();
    for _ in 0..1 + r.below(4) {
        if b.is_empty() {
            break;
        }
        let pos = r.below(b.len());
        match r.below(4) {
            0 => b[pos] = r.next() as u8,
            1 => b[pos] |= 0x80,
            2 => {
                b.insert(pos, [0xc3, 0xe2, 0xf0, 0xff, 0x80][r.below(5)]);
            }
            _ => {
                b.remove(pos);
            }
        }
    }
    String::from_utf8_lossy(&b).into_owned()
}

struct Patho {
    name: &'static str,
    make: Box<dyn Fn() -> String + Send + Sync>,
    value_expr: bool,
}

fn pathologies() -> Vec<Patho> {
    const N: usize = 100_000;
    let mut v: Vec<Patho> = Vec::new();
    let mut add = |name: &'static str, f: Box<dyn Fn() -> String + Send + Sync>| {
        v.push(Patho { name, make: f, value_expr: false })
    };
    add("flat-and-chain", Box::new(|| vec!["tru_m"; N].join(" and ")));
    add("flat-or-symbol-chain", Box::new(|| vec!["tru_m"; N].join("||")));
    add("flat-mixed-chain", Box::new(|| {
        let ops = [" and ", " or ", " xor "];
        let mut s = String::from("tru_m");
        for k in 0..N {
            s.push_str(ops[k % 3]);
            s.push_str(if k % 2 == 0 { "num_m == 1" } else { "not tru_o" });
        }
        s
    }));
    add("flat-xor-chain", Box::new(|| vec!["tru_m"; N].join(" xor ")));
    add("flat-xor-symbol-chain", Box::new(|| vec!["num_m == 1"; N].join("^^")));
    add("flat-chain-of-arrays", Box::new(|| format!("any({})", vec!["l_tru_m"; N].join(" and "))));
    add("deep-parens", Box::new(|| format!("{}tru_m{}", "(".repeat(N), ")".repeat(N))));
    add("deep-parens-unclosed", Box::new(|| format!("{}tru_m", "(".repeat(N))));
    add("deep-parens-spaced", Box::new(|| format!("{}tru_m", "( \n".repeat(N))));
    add("deep-nots", Box::new(|| format!("{}tru_m", "not ".repeat(N))));
    add("deep-bangs", Box::new(|| format!("{}tru_m", "!".repeat(N))));
    add("deep-calls", Box::new(|| format!("{}tru_m{}", "neg1(".repeat(N), ")".repeat(N))));
    add("deep-calls-unclosed", Box::new(|| format!("{}tru_m", "neg1 ( ".repeat(N))));
    add("deep-second-args", Box::new(|| format!("{}tru_m", "nboth1(tru_m,".repeat(N))));
    add("deep-quantifiers", Box::new(|| format!("{}l_tru_m", "any(".repeat(N))));
    add("deep-all-spaced", Box::new(|| format!("{}l_tru_m", "all (".repeat(N))));
    add("deep-quantifier-lift", Box::new(|| format!("{}tru_m", "any(lift1(".repeat(N))));
    add("deep-mixed", Box::new(|| format!("{}tru_m", "(not neg1(any(".repeat(N / 4))));
    add("deep-chain-in-parens", Box::new(|| format!("{}tru_m", "(tru_m and ".repeat(N))));
    add("deep-value-calls", Box::new(|| format!("{}str_m", "upper1(".repeat(N))));
    add("many-closing-parens", Box::new(|| format!("tru_m{}", ")".repeat(N))));
    add("many-index-suffixes", Box::new(|| format!("lll_num_m{} == 1", "[0]".repeat(N))));
    add("many-each-suffixes", Box::new(|| format!("any(lll_num_m{} == 1)", "[*]".repeat(N))));
    add("many-key-suffixes", Box::new(|| format!("mm_str_o{} == \"a\"", "[\"k\"]".repeat(N))));
    add("long-int-list", Box::new(|| format!("num_m in {{{}}}", (0..N).map(|k| k.to_string()).collect::<Vec<_>>().join(" "))));
    add("long-range-list", Box::new(|| format!("num_m in {{{}}}", (0..N).map(|k| format!("{}..{}", k, k + 7)).collect::<Vec<_>>().join(" "))));
    add("long-ip-list", Box::new(|| format!("ipa_m in {{{}}}", (0..N).map(|k| format!("10.{}.{}.0/24", (k >> 8) & 255, k & 255)).collect::<Vec<_>>().join(" "))));
    add("long-bytes-list", Box::new(|| format!("str_m in {{{}}}", (0..N).map(|k| format!("\"{}\"", k)).collect::<Vec<_>>().join(" "))));
    add("unclosed-list", Box::new(|| format!("num_m in {{{}", "1 ".repeat(N))));
    for (name, hashes) in [("raw-0-hashes", 0usize), ("raw-1-hash", 1), ("raw-255-hashes", 255), ("raw-256-hashes", 256), ("raw-100000-hashes", N)] {
        add(name, Box::new(move || format!("str_m == r{}\"x\"{}", "#".repeat(hashes), "#".repeat(hashes))));
    }
    add("raw-unterminated-long", Box::new(|| format!("str_m == r##\"{}", "\"#".repeat(N))));
    add("leading-newlines-error-last-line", Box::new(|| format!("{}tru_m and and", "\n".repeat(N))));
    add("leading-newlines-ok", Box::new(|| format!("{}tru_m", "\r\n".repeat(N))));
    add("error-at-first-byte", Box::new(|| format!(")tru_m{}", " and tru_m".repeat(N))));
    add("error-at-last-byte", Box::new(|| format!("{}(", "tru_m and ".repeat(N))));
    add("long-quoted-string", Box::new(|| format!("str_m == \"{}\"", "ab\\x00\\\\".repeat(N))));
    add("long-unterminated-string", Box::new(|| format!("str_m == \"{}", "a".repeat(N))));
    add("long-hex-bytes", Box::new(|| format!("str_m == {}", vec!["ab"; N].join(":"))));
    add("long-regex", Box::new(|| format!("str_m matches \"{}\"", "a".repeat(N))));
    add("long-regex-alternation", Box::new(|| format!("str_m matches \"{}\"", vec!["ab"; 2_000].join("|"))));
    add("long-regex-nesting", Box::new(|| format!("str_m matches \"{}a{}\"", "(".repeat(2_000), ")".repeat(2_000))));
    // bracket nesting *inside* a literal: the filter parser's nesting limit never sees these
    add("regex-deep-groups", Box::new(|| format!("str_m matches \"{}a{}\"", "(".repeat(N), ")".repeat(N))));
    add("regex-deep-groups-unclosed", Box::new(|| format!("str_m matches \"{}a\"", "(".repeat(N))));
    add("regex-deep-noncapturing-raw", Box::new(|| format!("str_m matches r#\"{}a{}\"#", "(?:".repeat(N), ")".repeat(N))));
    add("regex-deep-named-groups", Box::new(|| format!("str_m ~ \"{}a{}\"", "(?P<g>".repeat(N), ")".repeat(N))));
    add("regex-deep-classes", Box::new(|| format!("str_m matches \"{}a{}\"", "[".repeat(N), "]".repeat(N))));
    add("regex-deep-classes-negated", Box::new(|| format!("str_m matches r\"{}a{}\"", "[^b[".repeat(N / 2), "]]".repeat(N / 2))));
    add("regex-stacked-repetitions", Box::new(|| format!("str_m matches \"a{}\"", "*".repeat(N))));
    add("regex-stacked-counted-repetitions", Box::new(|| format!("str_m matches \"a{}\"", "{1}".repeat(N))));
    add("regex-deep-group-alternations", Box::new(|| format!("str_m matches \"{}a{}\"", "(b|".repeat(N), ")".repeat(N))));
    add("regex-deep-groups-in-call-argument", Box::new(|| format!("upper1(str_m) matches \"{}a{}\"", "((".repeat(N / 2), "))".repeat(N / 2))));
    add("regex-deep-groups-in-list-of-filters", Box::new(|| format!("tru_m or (str_m matches \"{}a{}\")", "(".repeat(N), ")*".repeat(N))));
    add("wildcard-deep-brackets", Box::new(|| format!("str_m wildcard \"{}a{}\"", "[(".repeat(N / 2), ")]".repeat(N / 2))));
    add("string-deep-brackets", Box::new(|| format!("str_m == \"{}a{}\"", "({[".repeat(N / 3), "]})".repeat(N / 3))));
    add("list-deep-braces", Box::new(|| format!("num_m in {}1{}", "{".repeat(N), "}".repeat(N))));
    add("index-deep-brackets", Box::new(|| format!("l_num_m{}0{} == 1", "[".repeat(N), "]".repeat(N))));
    add("long-wildcard", Box::new(|| format!("str_m wildcard \"{}\"", "a*b".repeat(N / 3))));
    add("long-wildcard-escapes", Box::new(|| format!("str_m strict wildcard r\"{}\"", "\\*\\\\".repeat(N / 4))));
    add("long-identifier", Box::new(|| format!("{} == 1", "n".repeat(N))));
    add("long-dotted-identifier", Box::new(|| format!("{}x == 1", "a.".repeat(N))));
    add("long-number", Box::new(|| format!("num_m == {}", "9".repeat(N))));
    add("long-list-name", Box::new(|| format!("num_m in ${}", "a.".repeat(N))));
    add("many-arguments", Box::new(|| format!("join1({}) == \"a\"", vec!["str_m"; N].join(","))));
    add("many-arguments-mismatch", Box::new(|| format!("join1({},num_m) == \"a\"", vec!["str_m"; N].join(" , "))));
    add("multibyte-long", Box::new(|| format!("str_m == \"{}\" and \u{e9}", "\u{1F600}\u{301}".repeat(N / 2))));
    add("nul-bytes", Box::new(|| format!("tru_m and {}", "\0".repeat(N))));
    add("only-whitespace", Box::new(|| " \r\n".repeat(N)));
    add("empty", Box::new(String::new));
    v.push(Patho {
        name: "value-deep-calls",
        make: Box::new(|| format!("{}str_m{}", "upper1(".repeat(N), ")".repeat(N))),
        value_expr: true,
    });
    v.push(Patho {
        name: "value-many-indexes",
        make: Box::new(|| format!("lll_num_m{}", "[0]".repeat(N))),
        value_expr: true,
    });
    v
}

pub fn run(run: &Run) {
    let eng = Eng::new(rich_env(0));
    let env = &eng.env;
    let seed = run.opts.seed;

    // ---- (c) structured pathologies, one process each (failure mode: stack overflow / hang)
    let pathos = pathologies();
    let budget = super::c13::stack_budget(&run.opts.variant);
    run.note("pathologies", json!(pathos.len()));
    run.exhaustive("pathologies", true);
    run.isolated("pathologies", pathos.len() as u64, 600, "C05", |i, l| {
        let p = &pathos[i as usize];
        let input = (p.make)();
        let scheme = eng.scheme.clone();
        let inp = input.clone();
        let is_value = p.value_expr;
        // measure the stack the parse needs on a thread of the budgeted size
        let t0 = Instant::now();
        let m = crate::stack::measure(budget, move || {
            let r = if is_value {
                scheme.parse_value(&inp).map(|_| ()).map_err(|e| e.to_string())
            } else {
                scheme.parse(&inp).map(|_| ()).map_err(|e| e.to_string())
            };
            r.is_ok()
        });
        let dt = t0.elapsed();
        if let Some((ok, used)) = m {
            run.note(
                &format!("pathology_{}", p.name),
                json!({"input_bytes": input.len(), "accepted": ok, "stack_bytes": used, "seconds": dt.as_secs_f64()}),
            );
        }
        // and the full oracle (panic, error well-formedness, time) once more
        check_parse(run, l, "pathologies", i, &eng, &input, if p.value_expr { 1 } else { 0 });
        run.distinct(hash_str(p.name));
        run.sample("pathologies", 8, || json!({"name": p.name, "input_bytes": input.len(), "prefix": prefix(&input).chars().take(60).collect::<String>()}));
    });
    if run.is_child() {
        return;
    }

    // ---- (a) token soup
    let n = run.opts.size(60_000, 6_000_000);
    run.parallel("token-soup", n, |i, l| {
        let mut r = Rng::derive(seed, "c05-soup", i);
        let k = 1 + r.below(14);
        let mut s = String::new();
        for _ in 0..k {
            s.push_str(TOKENS[r.below(TOKENS.len())]);
            if r.chance(1, 3) {
                s.push(' ');
            }
        }
        check_parse(run, l, "token-soup", i, &eng, &s, (i % 5 == 0) as u8);
        run.distinct(hash_str(&s));
        if i % 20011 == 0 {
            run.sample("token-soup", 4, || json!(s));
        }
    });

    // ---- (b) valid filters with character-level edits and byte corruption
    let n = run.opts.size(40_000, 4_000_000);
    run.parallel("mutated", n, |i, l| {
        let mut r = Rng::derive(seed, "c05-mut", i);
        let mut cfg = GenCfg::full();
        cfg.regex = true;
        cfg.max_depth = r.range(1, 4);
        let mut g = FilterGen::new(env, cfg, Rng::derive(seed, "c05-gen", i));
        let (base, kind) = if i % 6 == 0 {
            match g.value_expr() {
                Some(p) => (print_value_expr(env, &p, Some(Rng::derive(seed, "c05-vp", i))), 1u8),
                None => return,
            }
        } else {
            let e = g.filter();
            (print_filter(env, &e, Some(Rng::derive(seed, "c05-p", i))), 0u8)
        };
        // every proper prefix position near a token boundary is interesting: try
        // one truncation, then the random edits
        let chars: Vec<char> = base.chars().collect();
        if !chars.is_empty() {
            let cut = r.below(chars.len());
            let t: String = chars[..cut].iter().collect();
            check_parse(run, l, "mutated", i, &eng, &t, kind);
            let t2 = t.trim_end().to_string();
            check_parse(run, l, "mutated", i, &eng, &t2, kind);
        }
        let m = if r.chance(1, 4) {
            corrupt_bytes(&mut r, &base)
        } else {
            mutate_text(&mut r, &base)
        };
        check_parse(run, l, "mutated", i, &eng, &m, kind);
        // multi-line variant: errors on later lines
        if r.chance(1, 5) {
            let ml = format!("\n\r\n  {}\n", m);
            check_parse(run, l, "mutated", i, &eng, &ml, kind);
        }
        run.distinct(hash_str(&m));
        if i % 10007 == 0 {
            run.sample("mutated", 4, || json!({"original": prefix(&base), "mutated": prefix(&m)}));
        }
    });

    // ---- (b') systematic truncation of a corpus of filters at EVERY character
    let corpus: Vec<&str> = vec![
        "http.host wildcard \"*.example.com\" and not str_m strict wildcard r\"a*\"",
        "str_m matches r#\"a\"b\"# or str_m ~ \"[a-z\\\"]+\"",
        "num_m in {1 2..5 0x10} and ipa_m in {10.0.0.0/8 ::1..::ffff 1.2.3.4}",
        "any(upper1(l_str_m[*])[*] == \"A\") xor all(ll_tru_m[0])",
        "m_str_m[\"k\\x41\\101\"] contains 61:62:63 && l_num_m[4294967295] >= -9223372036854775808",
        "sum1(num_m, 0x7f, 017) bitwise_and 3 || glue1(str_m, r##\"x\"#y\"##, str_o) != \"\"",
        "str_m in $office.ips or not (num_o in $a and tru_o)",
        "join1(l_str_m, ll_str_m[1])[0] == \"\u{e9}\u{1F600}\" and tally1((l_tru_m or l_tru_o)) < 2",
    ];
    let total: u64 = corpus.iter().map(|c| c.chars().count() as u64 + 1).sum();
    run.exhaustive("truncations", true);
    run.parallel("truncations", total, |i, l| {
        let mut x = i;
        for c in &corpus {
            let n = c.chars().count() as u64 + 1;
            if x < n {
                let t: String = c.chars().take(x as usize).collect();
                check_parse(run, l, "truncations", i, &eng, &t, 0);
                // the same prefix followed by a space, a newline and garbage
                check_parse(run, l, "truncations", i, &eng, &format!("{} ", t), 0);
                check_parse(run, l, "truncations", i, &eng, &format!("{}\n", t), 0);
                check_parse(run, l, "truncations", i, &eng, &format!("\n{})", t), 0);
                run.distinct(hash_str(&t));
                return;
            }
            x -= n;
        }
    });
}
