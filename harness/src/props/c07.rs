//! C07 — the AST and its JSON are a canonical image of filter structure.

use super::common::*;
use crate::ast::*;
use crate::canon;
use crate::gen::*;
use crate::printer::Printer;
use crate::prng::{fnv1a, Rng};
use crate::report::{guard, hash_str, Local, Run};
use serde_json::json;
use std::collections::hash_map::DefaultHasher;
use std::hash::{Hash, Hasher};
use wirefilter::FilterAst;

pub fn cfg() -> GenCfg {
    GenCfg {
        regex: true,
        ..GenCfg::full()
    }
}

pub fn render(eng: &Eng, e: &Expr, rng: Option<Rng>, script: Option<Vec<u8>>, vary_lits: bool) -> (String, usize) {
    let mut p = match rng {
        Some(r) => Printer::random(&eng.env, r),
        None => Printer::canonical(&eng.env),
    };
    p.vary_literals = vary_lits;
    p.alias_script = script;
    p.expr(e);
    let n = p.alias_points;
    (p.finish(), n)
}

pub struct Parsed {
    pub ast: FilterAst,
    pub json: String,
    pub std_hash: u64,
    pub c_hash: u64,
}

pub fn parse_all(eng: &Eng, text: &str) -> Result<Parsed, String> {
    let ast = guard(|| eng.scheme.parse(text).map_err(|e| e.to_string()))
        .map_err(|p| format!("panic: {}", p))??;
    let json = serde_json::to_string(&ast).map_err(|e| e.to_string())?;
    let mut h = DefaultHasher::new();
    ast.hash(&mut h);
    let std_hash = h.finish();
    let wrapped = wirefilter_ffi::FilterAst::from(ast.clone());
    let hr = wirefilter_ffi::wirefilter_get_filter_hash(&wrapped);
    if hr.status != wirefilter_ffi::Status::Success {
        return Err("wirefilter_get_filter_hash failed".into());
    }
    Ok(Parsed {
        ast,
        json,
        std_hash,
        c_hash: hr.hash,
    })
}

/// One structural mutation; None when no applicable site was found.
pub fn mutate(env: &Env, e: &Expr, r: &mut Rng) -> Option<Expr> {
    fn sites(e: &Expr) -> usize {
        1 + match e {
            Expr::Cmp(..) => 0,
            Expr::Not(x) | Expr::Paren(x) => sites(x),
            Expr::Comb(_, items) => items.iter().map(sites).sum(),
            Expr::Quant(_, QArg::Logical(x)) => sites(x),
            Expr::Quant(_, QArg::Path(_)) => 0,
        }
    }
    fn at(env: &Env, e: &Expr, k: &mut usize, r: &mut Rng) -> Option<Expr> {
        if *k == 0 {
            *k = usize::MAX;
            return mutate_here(env, e, r);
        }
        *k -= 1;
        match e {
            Expr::Cmp(..) => None,
            Expr::Not(x) => at(env, x, k, r).map(Expr::not),
            Expr::Paren(x) => at(env, x, k, r).map(Expr::paren),
            Expr::Comb(op, items) => {
                for (i, it) in items.iter().enumerate() {
                    if let Some(m) = at(env, it, k, r) {
                        let mut items = items.clone();
                        items[i] = m;
                        return Some(Expr::Comb(*op, items));
                    }
                    if *k == usize::MAX {
                        return None;
                    }
                }
                None
            }
            Expr::Quant(q, QArg::Logical(x)) => {
                at(env, x, k, r).map(|m| Expr::Quant(*q, QArg::Logical(Box::new(m))))
            }
            Expr::Quant(_, QArg::Path(_)) => None,
        }
    }
    fn mutate_here(env: &Env, e: &Expr, r: &mut Rng) -> Option<Expr> {
        match e {
            Expr::Cmp(p, op) => {
                let choice = r.below(4);
                match (choice, op) {
                    (0, CmpOp::Ord(o, l)) => {
                        let others: Vec<OrdOp> = ORD_OPS.iter().copied().filter(|x| x != o).collect();
                        Some(Expr::Cmp(p.clone(), CmpOp::Ord(*r.pick(&others), l.clone())))
                    }
                    (1, CmpOp::Ord(o, Lit::Int(i))) => {
                        Some(Expr::Cmp(p.clone(), CmpOp::Ord(*o, Lit::Int(i.wrapping_add(1)))))
                    }
                    (1, CmpOp::Ord(o, Lit::Bytes(b))) => {
                        let mut d = b.data.clone();
                        d.push(b'z');
                        // keep the form valid for the new data
                        let form = match b.form {
                            BytesForm::Raw(_) => BytesForm::Quoted,
                            f => f,
                        };
                        Some(Expr::Cmp(p.clone(), CmpOp::Ord(*o, Lit::Bytes(BytesLit { data: d, form }))))
                    }
                    (1, CmpOp::BitAnd(m)) => Some(Expr::Cmp(p.clone(), CmpOp::BitAnd(m ^ 1))),
                    (1, CmpOp::InList(n)) => {
                        Some(Expr::Cmp(p.clone(), CmpOp::InList(format!("{}x", n))))
                    }
                    (1, CmpOp::Wildcard { strict, pat }) => Some(Expr::Cmp(
                        p.clone(),
                        CmpOp::Wildcard {
                            strict: !*strict,
                            pat: pat.clone(),
                        },
                    )),
                    (2, _) => {
                        // change an index or the identifier
                        let mut p2 = p.clone();
                        if let Some(pos) = p2.idx.iter().position(|i| matches!(i, Idx::Arr(_) | Idx::Key(_))) {
                            p2.idx[pos] = match &p2.idx[pos] {
                                Idx::Arr(n) => Idx::Arr(n.wrapping_add(1)),
                                Idx::Key(k) => Idx::Key(format!("{}q", k)),
                                Idx::Each => unreachable!(),
                            };
                            Some(Expr::Cmp(p2, op.clone()))
                        } else if let Base::Field(f) = p2.base {
                            let same: Vec<usize> = env
                                .fields
                                .iter()
                                .enumerate()
                                .filter(|(i, fd)| *i != f && fd.ty == env.fields[f].ty)
                                .map(|(i, _)| i)
                                .collect();
                            if same.is_empty() {
                                return None;
                            }
                            p2.base = Base::Field(*r.pick(&same));
                            Some(Expr::Cmp(p2, op.clone()))
                        } else {
                            None
                        }
                    }
                    (3, CmpOp::Ord(o, Lit::Bytes(b))) if b.data.len() >= 2 => {
                        // literal kind: quoted/raw <-> hex pairs (differs in JSON
                        // whenever the data is valid UTF-8)
                        if std::str::from_utf8(&b.data).is_err() {
                            return None;
                        }
                        let form = match b.form {
                            BytesForm::Hex(_) => BytesForm::Quoted,
                            _ => BytesForm::Hex(b':'),
                        };
                        Some(Expr::Cmp(
                            p.clone(),
                            CmpOp::Ord(*o, Lit::Bytes(BytesLit { data: b.data.clone(), form })),
                        ))
                    }
                    _ => None,
                }
            }
            Expr::Not(x) => Some((**x).clone()).filter(|x| !matches!(x, Expr::Paren(_))).or_else(|| {
                // not (e) -> (e) changes structure too: drop the not
                match &**x {
                    Expr::Paren(inner) => Some(Expr::not(Expr::not(Expr::paren((**inner).clone())))),
                    _ => None,
                }
            }),
            Expr::Paren(_) => None, // never a pure redundant-parenthesis change
            Expr::Comb(op, items) => {
                match r.below(2) {
                    0 => {
                        let others: Vec<LogOp> = LOG_OPS.iter().copied().filter(|x| x != op).collect();
                        Some(Expr::Comb(*r.pick(&others), items.clone()).normalize())
                    }
                    _ => {
                        if items.len() >= 3 {
                            // association: a op b op c -> (a op b) op c
                            let mut rest = items.clone();
                            let a = rest.remove(0);
                            let b = rest.remove(0);
                            let mut out = vec![Expr::paren(Expr::Comb(*op, vec![a, b]))];
                            out.extend(rest);
                            Some(Expr::Comb(*op, out))
                        } else {
                            // swap operands (structure = order)
                            let mut it = items.clone();
                            it.swap(0, 1);
                            if it == *items {
                                None
                            } else {
                                Some(Expr::Comb(*op, it))
                            }
                        }
                    }
                }
            }
            Expr::Quant(q, a) => Some(Expr::Quant(
                match q {
                    QOp::Any => QOp::All,
                    QOp::All => QOp::Any,
                },
                a.clone(),
            )),
        }
    }
    let n = sites(e);
    for _ in 0..6 {
        let mut k = r.below(n);
        if let Some(m) = at(env, e, &mut k, r) {
            let m = m.normalize();
            if m != *e {
                return Some(m);
            }
        }
    }
    None
}

fn check_structure(run: &Run, l: &mut Local, fam: &str, i: u64, eng: &Eng, expr: &Expr, seed: u64) {
    // renderings: canonical + alias enumeration (small) or random layouts
    let (canon_text, points) = render(eng, expr, None, None, false);
    let mut texts: Vec<(String, &'static str)> = vec![(canon_text.clone(), "canonical")];
    if points <= 5 {
        for mask in 0..(1u32 << points) {
            let script: Vec<u8> = (0..points).map(|k| ((mask >> k) & 1) as u8).collect();
            let (t, _) = render(eng, expr, Some(Rng::derive(seed, "c07-ws", i * 64 + mask as u64)), Some(script), false);
            texts.push((t, "alias+whitespace"));
        }
        l.count("structures_with_all_alias_combinations");
    } else {
        for k in 0..6 {
            let (t, _) = render(eng, expr, Some(Rng::derive(seed, "c07-ws", i * 64 + k)), None, false);
            texts.push((t, "alias+whitespace"));
        }
    }
    // literal spellings (radix, escapes, IP forms): covered by C06's statement
    let (t, _) = render(eng, expr, Some(Rng::derive(seed, "c07-lit", i)), None, true);
    texts.push((t, "literal-spelling"));

    let mut first: Option<Parsed> = None;
    for (t, kind) in &texts {
        l.evals += 1;
        let p = match parse_all(eng, t) {
            Ok(p) => p,
            Err(e) => {
                run.violation(
                    &format!("C07/rendering-rejected/{}/{}", kind, error_kind(&e)),
                    "renderings-parse",
                    fam,
                    i,
                    json!({"text": t, "canonical_text": canon_text, "error": e}),
                );
                continue;
            }
        };
        // (iv) determinism of serialisation
        let again = serde_json::to_string(&p.ast).unwrap_or_default();
        if again != p.json {
            run.violation("C07/serialisation-not-deterministic", "deterministic", fam, i, json!({"text": t}));
        }
        match &first {
            None => {
                // (ii) canonical document
                let got: serde_json::Value = serde_json::from_str(&p.json).unwrap_or(serde_json::Value::Null);
                let want = canon::expr(&eng.env, expr);
                if got != want {
                    run.violation(
                        &format!("C07/not-canonical/{}", shape(expr, 2)),
                        "canonical-json",
                        fam,
                        i,
                        json!({"text": t, "expected": want, "got": got}),
                    );
                }
                // C-API hash is FNV-1a of the JSON text
                if p.c_hash != fnv1a(p.json.as_bytes()) {
                    run.violation("C07/c-hash-not-fnv-of-json", "c-hash", fam, i, json!({"text": t}));
                }
                first = Some(p);
            }
            Some(f) => {
                let same_ast = f.ast == p.ast;
                if !same_ast || f.json != p.json || f.std_hash != p.std_hash || f.c_hash != p.c_hash {
                    run.violation(
                        &format!(
                            "C07/rendering-changes-ast/{}/ast={}/json={}/hash={}/chash={}",
                            kind,
                            same_ast,
                            f.json == p.json,
                            f.std_hash == p.std_hash,
                            f.c_hash == p.c_hash
                        ),
                        "invariance",
                        fam,
                        i,
                        json!({"text_a": texts[0].0, "text_b": t, "json_a": f.json, "json_b": p.json}),
                    );
                }
            }
        }
    }
    run.distinct(hash_str(&format!("s|{}|{}", eng.env.nil_ne, canon_text)));
    if i % 2503 == 0 {
        run.sample(fam, 4, || json!({"canonical_text": canon_text, "renderings": texts.len()}));
    }
}

pub fn run(run: &Run) {
    let envs: Vec<Eng> = (0..2).map(|v| Eng::new(rich_env(v))).collect();
    let seed = run.opts.seed;

    let n = run.opts.size(240_000, 8_000_000);
    run.parallel("structures", n, |i, l| {
        let mut r = Rng::derive(seed, "c07-s", i);
        let eng = &envs[r.below(envs.len())];
        let mut c = cfg();
        c.max_depth = r.range(1, 4);
        let mut g = FilterGen::new(&eng.env, c, Rng::derive(seed, "c07-gen", i));
        let expr = g.filter();
        check_structure(run, l, "structures", i, eng, &expr, seed);
    });

    // ---- every chain of up to 5 operator occurrences over and/xor/or: the tree
    // is the one the documented precedence assigns (not > and > xor > or)
    let eng0 = &envs[0];
    let bools: Vec<usize> = eng0
        .env
        .fields
        .iter()
        .enumerate()
        .filter(|(_, f)| f.ty == crate::rv::RType::Bool)
        .map(|(i, _)| i)
        .collect();
    let mut nchains = 0u64;
    let mut p3 = 3u64;
    for _ in 1..=5 {
        nchains += p3;
        p3 *= 3;
    }
    run.exhaustive("chains", true);
    run.parallel("chains", nchains, |i, l| {
        let mut x = i;
        let mut len = 1usize;
        let mut block = 3u64;
        while x >= block {
            x -= block;
            block *= 3;
            len += 1;
        }
        let mut ops = Vec::new();
        for _ in 0..len {
            ops.push(LOG_OPS[(x % 3) as usize]);
            x /= 3;
        }
        let operands: Vec<Expr> = (0..=len)
            .map(|k| {
                let c = Expr::Cmp(Path::field(bools[k % bools.len()]), CmpOp::IsTrue);
                if (i >> k) & 1 == 1 {
                    Expr::not(c)
                } else {
                    c
                }
            })
            .collect();
        let tree = super::c01::climb(&operands, &ops);
        check_structure(run, l, "chains", i, eng0, &tree, seed);
    });

    let n = run.opts.size(240_000, 8_000_000);
    run.parallel("mutations", n, |i, l| {
        let mut r = Rng::derive(seed, "c07-m", i);
        let eng = &envs[r.below(envs.len())];
        let mut c = cfg();
        c.max_depth = r.range(1, 3);
        let mut g = FilterGen::new(&eng.env, c, Rng::derive(seed, "c07-mgen", i));
        let expr = g.filter();
        let Some(mutant) = mutate(&eng.env, &expr, &mut r) else {
            l.count("no_mutation_site");
            return;
        };
        if crate::refsem::type_filter(&eng.env, &mutant).is_err() {
            l.count("mutant_ill_typed");
            return;
        }
        // a pair is "structurally different" in the sense of the statement when the
        // canonical documents of the two structures differ (exchanging two operands
        // that differ only in redundant parentheses, say, is not a structural change)
        if canon::expr(&eng.env, &expr.clone().normalize()) == canon::expr(&eng.env, &mutant.clone().normalize()) {
            l.count("mutation_not_structural");
            return;
        }
        let (ta, _) = render(eng, &expr, None, None, false);
        let (tb, _) = render(eng, &mutant, None, None, false);
        l.evals += 1;
        let (pa, pb) = match (parse_all(eng, &ta), parse_all(eng, &tb)) {
            (Ok(a), Ok(b)) => (a, b),
            (a, b) => {
                let e = a.err().or(b.err()).unwrap_or_default();
                run.violation(
                    &format!("C07/mutation-pair-rejected/{}", error_kind(&e)),
                    "renderings-parse",
                    "mutations",
                    i,
                    json!({"a": ta, "b": tb, "error": e}),
                );
                return;
            }
        };
        if pa.json == pb.json {
            run.violation(
                &format!("C07/distinct-structures-same-json/{}", shape(&expr, 2)),
                "injectivity",
                "mutations",
                i,
                json!({"a": ta, "b": tb, "json": pa.json}),
            );
        } else if pa.c_hash == pb.c_hash {
            l.count("fnv_collisions_between_distinct_json");
        }
        if pa.ast == pb.ast {
            run.violation(
                "C07/distinct-structures-equal-ast",
                "injectivity",
                "mutations",
                i,
                json!({"a": ta, "b": tb}),
            );
        }
        l.count("mutation_pairs");
        run.distinct(hash_str(&format!("m|{}|{}", ta, tb)));
        if i % 2003 == 0 {
            run.sample("mutations", 4, || json!({"a": ta, "b": tb}));
        }
    });
}
