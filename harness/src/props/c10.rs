//! C10 — `contains` is exact substring search on every code path.
//! One worker process per mode (WIREFILTER_USE_AVX2 is latched per process);
//! the supervisor runs this with the variable set to 1 and to 0 (and again
//! under ASan / Miri).

use super::common::*;
use crate::gen::*;
use crate::prng::Rng;
use crate::refsem::naive_contains;
use crate::report::{guard, hash_str, Run};
use crate::rv::show_bytes;
use serde_json::json;
use wirefilter::verif::{set_anchor_override, simd_active, take_searcher_log, SearcherKind};
use wirefilter::ExecutionContext;

fn quote(p: &[u8]) -> String {
    let mut s = String::from("\"");
    for &c in p {
        if c.is_ascii_alphanumeric() {
            s.push(c as char);
        } else {
            s.push_str(&format!("\\x{:02x}", c));
        }
    }
    s.push('"');
    s
}

fn patterns(len: usize, r: &mut Rng) -> Vec<Vec<u8>> {
    if len == 0 {
        return vec![vec![]];
    }
    let mut v: Vec<Vec<u8>> = Vec::new();
    v.push(vec![b'a'; len]);
    v.push((0..len).map(|i| if i % 2 == 0 { b'a' } else { b'b' }).collect());
    v.push((0..len).map(|_| b"abc"[r.below(3)]).collect());
    let mut distinct_ends: Vec<u8> = vec![b'a'; len];
    distinct_ends[0] = b'x';
    distinct_ends[len - 1] = b'y';
    v.push(distinct_ends);
    v.push((0..len).map(|_| [0u8, 0xff, b'a', 0x80][r.below(4)]).collect());
    v.sort();
    v.dedup();
    v
}

fn haystacks(p: &[u8], anchor: usize, r: &mut Rng, extra_random: usize) -> Vec<Vec<u8>> {
    let m = p.len();
    let mut hs: Vec<Vec<u8>> = Vec::new();
    let alphabet: Vec<u8> = {
        let mut a: Vec<u8> = p.iter().copied().collect();
        a.push(b'a');
        a.push(b'b');
        a.sort();
        a.dedup();
        a
    };
    let filler = |n: usize, r: &mut Rng, mode: usize| -> Vec<u8> {
        (0..n)
            .map(|i| match mode {
                0 => b'q',
                1 => alphabet[i % alphabet.len()],
                2 => {
                    if m > 0 {
                        p[0]
                    } else {
                        b'a'
                    }
                }
                3 => {
                    if m > 0 {
                        p[anchor.min(m - 1)]
                    } else {
                        b'a'
                    }
                }
                _ => alphabet[r.below(alphabet.len())],
            })
            .collect()
    };
    hs.push(vec![]);
    hs.push(p.to_vec());
    if m > 0 {
        hs.push(p[..m - 1].to_vec());
        hs.push(p[1..].to_vec());
        let mut one_more = p.to_vec();
        one_more.push(b'q');
        hs.push(one_more);
        let mut one_before = vec![b'q'];
        one_before.extend_from_slice(p);
        hs.push(one_before);
    }
    for total in [m + 1, 15, 16, 17, 31, 32, 33, 47, 48, 63, 64, 65, 127, 128, 129, 300] {
        if total < m {
            continue;
        }
        for mode in [0usize, 2, 3, 4] {
            // at offset 0
            let mut h = p.to_vec();
            h.extend(filler(total - m, r, mode));
            hs.push(h);
            // at the very end
            let mut h = filler(total - m, r, mode);
            h.extend_from_slice(p);
            hs.push(h);
        }
    }
    // straddling 16/32-byte block boundaries
    if m >= 2 {
        for boundary in [16usize, 32, 64] {
            for k in [1, m / 2, m - 1] {
                if k == 0 || k >= m || boundary < k {
                    continue;
                }
                let off = boundary - k;
                for total in [boundary + m, 100] {
                    if total < off + m {
                        continue;
                    }
                    let mut h = filler(off, r, 4);
                    h.extend_from_slice(p);
                    h.extend(filler(total - off - m, r, 1));
                    hs.push(h);
                }
            }
        }
    }
    // near misses: first / anchor / last byte altered
    if m >= 1 {
        for pos in [0, anchor.min(m - 1), m - 1] {
            let mut q = p.to_vec();
            q[pos] = if q[pos] == b'z' { b'w' } else { b'z' };
            for total in [m, m + 7, 40, 70] {
                if total < m {
                    continue;
                }
                let mut h = filler((total - m) / 2, r, 2);
                h.extend_from_slice(&q);
                h.extend(filler(total - m - (total - m) / 2, r, 3));
                hs.push(h);
            }
        }
    }
    // random haystacks over small alphabets (force false candidates)
    for _ in 0..extra_random {
        let n = r.below(301);
        let asz = 1 + r.below(3);
        hs.push((0..n).map(|_| alphabet[r.below(asz.min(alphabet.len()))]).collect());
    }
    hs
}

pub fn run(run: &Run) {
    let eng = Eng::new(scalar_env(true));
    let env = &eng.env;
    let seed = run.opts.seed;
    let field = eng.scheme.get_field("str_m").unwrap();
    let simd = simd_active();
    run.note("simd_active", json!(simd));
    let want_simd = run.opts.extra.get("avx2").map(|s| s == "1");
    if let Some(w) = want_simd {
        if w != simd {
            run.inconclusive(format!(
                "this worker was started for avx2={} but the engine reports simd_active={}",
                w, simd
            ));
            return;
        }
    }
    let slow = matches!(run.opts.variant.as_str(), "asan" | "miri" | "valgrind");
    let miri = run.opts.variant == "miri";
    let max_len = if miri { 34 } else { 40 };

    // every (length, pattern, anchor) combination
    let mut cases: Vec<(Vec<u8>, usize)> = Vec::new();
    let mut r0 = Rng::derive(seed, "c10-patterns", 0);
    for len in 0..=max_len {
        for p in patterns(len, &mut r0) {
            if len < 2 || !simd {
                cases.push((p, 0));
            } else {
                let anchors: Vec<usize> = if (slow && !run.opts.thorough()) || miri {
                    let mut a = vec![1, len / 2, len - 1];
                    a.retain(|x| *x >= 1 && *x < len);
                    a.sort();
                    a.dedup();
                    a
                } else {
                    (1..len).collect()
                };
                for a in anchors {
                    cases.push((p.clone(), a));
                }
            }
        }
    }
    if miri {
        // keep the interpreter run short: a slice of the cases
        let mut r = Rng::derive(seed, "c10-miri", 0);
        r.shuffle(&mut cases);
        cases.truncate(if run.opts.thorough() { 640 } else { 24 });
    }
    run.note("pattern_anchor_cases", json!(cases.len()));
    run.exhaustive("anchors", !miri);
    let extra_random = if miri { 2 } else if slow { 10 } else { 30 };

    run.parallel("anchors", cases.len() as u64, |i, l| {
        let (p, anchor) = &cases[i as usize];
        let mut r = Rng::derive(seed, "c10-hay", i);
        let text = format!("str_m contains {}", quote(p));
        let ast = match guard(|| eng.scheme.parse(&text).map_err(|e| e.to_string())) {
            Ok(Ok(a)) => a,
            other => {
                run.violation(
                    "C10/parse-failed",
                    "parses",
                    "anchors",
                    i,
                    json!({"filter": text, "outcome": format!("{:?}", other.map(|r| r.map(|_| ())))}),
                );
                return;
            }
        };
        let _ = take_searcher_log();
        set_anchor_override(if *anchor > 0 { Some(*anchor) } else { None });
        let filter = guard(|| ast.compile());
        set_anchor_override(None);
        let filter = match filter {
            Ok(f) => f,
            Err(pn) => {
                run.violation(
                    &format!("C10/compile-panic/{}", first_line(&pn)),
                    "no-panic",
                    "anchors",
                    i,
                    json!({"filter": text, "anchor": anchor, "panic": pn}),
                );
                return;
            }
        };
        let log = take_searcher_log();
        // which path did the engine select?
        let expect_kind = match (p.len(), simd) {
            (0, _) => SearcherKind::Empty,
            (1, _) => SearcherKind::Memchr,
            (2..=16, true) => SearcherKind::Avx2Array,
            (_, true) => SearcherKind::Avx2Boxed,
            (_, false) => SearcherKind::Memmem,
        };
        match log.as_slice() {
            [ev] => {
                l.count(match ev.kind {
                    SearcherKind::Empty => "searcher_empty",
                    SearcherKind::Memchr => "searcher_memchr",
                    SearcherKind::Avx2Array => "searcher_avx2_array",
                    SearcherKind::Avx2Boxed => "searcher_avx2_boxed",
                    SearcherKind::Memmem => "searcher_memmem",
                });
                if ev.kind != expect_kind {
                    run.violation(
                        &format!("C10/unexpected-code-path/{:?}-instead-of-{:?}", ev.kind, expect_kind),
                        "code-path",
                        "anchors",
                        i,
                        json!({"filter": text, "event": format!("{:?}", ev), "simd_active": simd}),
                    );
                }
                if *anchor > 0 && ev.position != *anchor {
                    run.inconclusive(format!(
                        "anchor override not honoured: wanted {} got {}",
                        anchor, ev.position
                    ));
                }
            }
            other => run.inconclusive(format!("searcher hook reported {} events", other.len())),
        }
        let hs = haystacks(p, *anchor, &mut r, extra_random);
        let mut ctx = ExecutionContext::<()>::new(&eng.scheme);
        for f in env.fields.iter().filter(|f| !f.optional) {
            let fr = eng.scheme.get_field(&f.name).unwrap();
            let v = gen_value(&mut Rng::new(3), &f.ty).to_lhs_unwrap();
            ctx.set_field_value(fr, v).unwrap();
        }
        let mut hits = 0u64;
        for (hi, h) in hs.iter().enumerate() {
            l.evals += 1;
            let expected = naive_contains(h, p);
            // exact-size heap allocation so that an over-read lands in a red zone;
            // every third haystack is the tail of a larger allocation instead
            let got = if hi % 3 == 2 && !h.is_empty() {
                let mut big = vec![0xEEu8; 37];
                big.extend_from_slice(h);
                let big: Box<[u8]> = big.into_boxed_slice();
                let mut c2 = ExecutionContext::<()>::new(&eng.scheme);
                for f in env.fields.iter().filter(|f| !f.optional) {
                    let fr = eng.scheme.get_field(&f.name).unwrap();
                    let v = gen_value(&mut Rng::new(3), &f.ty).to_lhs_unwrap();
                    c2.set_field_value(fr, v).unwrap();
                }
                c2.set_field_value(field, &big[37..]).unwrap();
                guard(|| filter.execute(&c2))
            } else {
                let exact: Box<[u8]> = h.clone().into_boxed_slice();
                ctx.set_field_value(field, wirefilter::LhsValue::Bytes(exact.into()))
                    .unwrap();
                guard(|| filter.execute(&ctx))
            };
            match got {
                Ok(Ok(b)) if b == expected => {
                    if b {
                        hits += 1;
                    }
                }
                Ok(Ok(b)) => run.violation(
                    &format!("C10/wrong-answer/{:?}/len{}", expect_kind, p.len().min(17)),
                    "naive-search",
                    "anchors",
                    i,
                    json!({"pattern": show_bytes(p), "anchor": anchor, "haystack": show_bytes(h),
                           "haystack_len": h.len(), "expected": expected, "got": b, "simd_active": simd}),
                ),
                Ok(Err(_)) => run.violation("C10/scheme-mismatch", "executes", "anchors", i, json!({})),
                Err(pn) => run.violation(
                    &format!("C10/execute-panic/{}", first_line(&pn)),
                    "no-panic",
                    "anchors",
                    i,
                    json!({"pattern": show_bytes(p), "anchor": anchor, "haystack": show_bytes(h), "panic": pn}),
                ),
            }
        }
        l.add("haystacks_containing_pattern", hits);
        run.distinct(hash_str(&format!("{:?}|{}|{}", p, anchor, simd)));
        if i % 97 == 0 {
            run.sample("anchors", 4, || {
                json!({"pattern": show_bytes(p), "anchor": anchor, "haystacks": hs.len(), "path": format!("{:?}", expect_kind)})
            });
        }
    });

    // ---- determinism: recompilations with the random anchor agree
    let n = if miri { 32 } else { run.opts.size(150, 2_000) };
    let recompiles = if miri { 4 } else if slow { 10 } else { 50 };
    run.parallel("recompile", n, |i, l| {
        let mut r = Rng::derive(seed, "c10-re", i);
        let len = 2 + r.below(39);
        let p: Vec<u8> = (0..len).map(|_| b"ab"[r.below(2)]).collect();
        let text = format!("str_m contains {}", quote(&p));
        let hs = haystacks(&p, 1, &mut r, 6);
        let mut ctx = ExecutionContext::<()>::new(&eng.scheme);
        for f in env.fields.iter().filter(|f| !f.optional) {
            let fr = eng.scheme.get_field(&f.name).unwrap();
            ctx.set_field_value(fr, gen_value(&mut Rng::new(3), &f.ty).to_lhs_unwrap())
                .unwrap();
        }
        let mut positions = std::collections::BTreeSet::new();
        for _ in 0..recompiles {
            let _ = take_searcher_log();
            let filter = match guard(|| eng.scheme.parse(&text).unwrap().compile()) {
                Ok(f) => f,
                Err(pn) => {
                    run.violation(
                        &format!("C10/compile-panic/{}", first_line(&pn)),
                        "no-panic",
                        "recompile",
                        i,
                        json!({"filter": text, "panic": pn}),
                    );
                    return;
                }
            };
            for ev in take_searcher_log() {
                positions.insert(ev.position);
            }
            for h in hs.iter().step_by(5) {
                l.evals += 1;
                let exact: Box<[u8]> = h.clone().into_boxed_slice();
                ctx.set_field_value(field, wirefilter::LhsValue::Bytes(exact.into()))
                    .unwrap();
                let expected = naive_contains(h, &p);
                match guard(|| filter.execute(&ctx)) {
                    Ok(Ok(b)) if b == expected => {}
                    other => run.violation(
                        "C10/recompilation-disagrees",
                        "determinism",
                        "recompile",
                        i,
                        json!({"pattern": show_bytes(&p), "haystack": show_bytes(h), "expected": expected,
                               "got": format!("{:?}", other)}),
                    ),
                }
            }
        }
        l.add("distinct_random_anchor_positions", positions.len() as u64);
        run.distinct(hash_str(&format!("re|{:?}", p)));
    });
}
