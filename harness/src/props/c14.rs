//! C14 — execution contexts survive serialization and reject bad JSON safely.

use super::common::*;
use crate::ast::*;
use crate::engine::{build_scheme, rv_from_json};
use crate::gen::*;
use crate::printer::print_filter;
use crate::prng::Rng;
use crate::refsem::ListState;
use crate::report::{guard, hash_str, Local, Run};
use crate::rv::{RType, RV};
use serde::de::DeserializeSeed;
use serde_json::{json, Value as J};
use std::collections::{BTreeMap, BTreeSet};
use wirefilter::{ExecutionContext, GetType, Scheme};

const FEEDS: [&str; 5] = ["str", "slice", "reader", "value", "c-api-lent-buffer"];

/// Deserialize `text` into a fresh context through one of the four feeds and
/// hand the context to `f` (the context may borrow from `text`).
fn load<R>(
    scheme: &Scheme,
    text: &str,
    feed: usize,
    f: impl FnOnce(Result<&ExecutionContext<'_>, String>) -> R,
) -> Result<R, String> {
    guard(|| match feed {
        0 => {
            let mut ctx = ExecutionContext::<()>::new(scheme);
            let mut de = serde_json::Deserializer::from_str(text);
            let r = (&mut ctx).deserialize(&mut de).map_err(|e| e.to_string());
            let r = r.and_then(|_| de.end().map_err(|e| e.to_string()));
            match r {
                Ok(()) => f(Ok(&ctx)),
                Err(e) => {
                    let _ = invariant_only(scheme, &ctx);
                    f(Err(e))
                }
            }
        }
        1 => {
            let mut ctx = ExecutionContext::<()>::new(scheme);
            let mut de = serde_json::Deserializer::from_slice(text.as_bytes());
            let r = (&mut ctx).deserialize(&mut de).map_err(|e| e.to_string());
            let r = r.and_then(|_| de.end().map_err(|e| e.to_string()));
            match r {
                Ok(()) => f(Ok(&ctx)),
                Err(e) => f(Err(e)),
            }
        }
        2 => {
            let mut ctx = ExecutionContext::<()>::new(scheme);
            let mut de = serde_json::Deserializer::from_reader(text.as_bytes());
            let r = (&mut ctx).deserialize(&mut de).map_err(|e| e.to_string());
            let r = r.and_then(|_| de.end().map_err(|e| e.to_string()));
            match r {
                Ok(()) => f(Ok(&ctx)),
                Err(e) => f(Err(e)),
            }
        }
        3 => {
            let v: J = match serde_json::from_str(text) {
                Ok(v) => v,
                Err(e) => return f(Err(format!("not JSON: {}", e))),
            };
            let mut ctx = ExecutionContext::<()>::new(scheme);
            match (&mut ctx).deserialize(v).map_err(|e| e.to_string()) {
                Ok(()) => f(Ok(&ctx)),
                Err(e) => f(Err(e)),
            }
        }
        _ => {
            // the C entry point: the caller lends the buffer for the duration
            // of the call only, so it is overwritten and freed before the
            // context is looked at
            let mut fctx = wirefilter_ffi::ExecutionContext::from(ExecutionContext::<()>::new(scheme));
            let mut buf: Vec<u8> = text.as_bytes().to_vec();
            let ok = wirefilter_ffi::wirefilter_deserialize_json_to_execution_context(&mut fctx, buf.as_ptr(), buf.len());
            for b in buf.iter_mut() {
                *b = b'#';
            }
            drop(buf);
            if ok {
                f(Ok(&fctx))
            } else {
                let p = wirefilter_ffi::wirefilter_get_last_error();
                let msg = if p.is_null() {
                    "false without a last-error message".to_string()
                } else {
                    unsafe { std::ffi::CStr::from_ptr(p) }.to_string_lossy().into_owned()
                };
                f(Err(msg))
            }
        }
    })
}

/// Deep type invariant over a context (also after a failed load).
pub(crate) fn invariant_only(scheme: &Scheme, ctx: &ExecutionContext<'_>) -> Result<(), String> {
    for f in scheme.fields() {
        if let Some(v) = ctx.get_field_value(f) {
            if v.get_type() != f.get_type() {
                return Err(format!(
                    "field {} declared {:?} holds a {:?}",
                    f.name(),
                    f.get_type(),
                    v.get_type()
                ));
            }
            RV::from_lhs(v).map_err(|e| format!("field {}: {}", f.name(), e))?;
        }
    }
    Ok(())
}

fn read_back(env: &Env, scheme: &Scheme, ctx: &ExecutionContext<'_>) -> Result<Ctx, String> {
    invariant_only(scheme, ctx)?;
    let mut out = Vec::new();
    for f in &env.fields {
        let field = scheme.get_field(&f.name).map_err(|_| "field lookup".to_string())?;
        out.push(match ctx.get_field_value(field) {
            Some(v) => Some(RV::from_lhs(v)?),
            None => None,
        });
    }
    Ok(out)
}

/// the documented JSON form of a context
pub(crate) fn expected_doc(env: &Env, vals: &Ctx, lists: &ListState) -> J {
    let mut o = serde_json::Map::new();
    for (f, v) in env.fields.iter().zip(vals) {
        if let Some(v) = v {
            o.insert(f.name.clone(), v.to_json());
        }
    }
    if !env.lists.is_empty() {
        let mut arr = Vec::new();
        for (t, kind) in &env.lists {
            let data = match kind {
                ListKind::Harness => {
                    let mut m = serde_json::Map::new();
                    for ((lt, name), members) in &lists.sets {
                        if lt == t {
                            m.insert(name.clone(), J::Array(members.iter().map(|x| x.to_json()).collect()));
                        }
                    }
                    J::Object(m)
                }
                _ => json!({}),
            };
            arr.push(json!({"type": t.to_json(), "data": data}));
        }
        o.insert("$lists".into(), J::Array(arr));
    }
    J::Object(o)
}

// ---------------------------------------------------------------------------
// JSON acceptance model

fn decode(t: &RType, j: &J) -> Option<RV> {
    Some(match (t, j) {
        (RType::Int, J::Number(n)) => RV::Int(n.as_i64()?),
        (RType::Bool, J::Bool(b)) => RV::Bool(*b),
        (RType::Ip, J::String(s)) => RV::Ip(s.parse().ok()?),
        (RType::Bytes, J::String(s)) => RV::Bytes(s.as_bytes().to_vec()),
        (RType::Bytes, J::Array(a)) => RV::Bytes(
            a.iter()
                .map(|x| match x {
                    J::Number(n) => n.as_u64().and_then(|v| u8::try_from(v).ok()),
                    _ => None,
                })
                .collect::<Option<Vec<u8>>>()?,
        ),
        (RType::Array(e), J::Array(a)) => RV::Array(
            (**e).clone(),
            a.iter().map(|x| decode(e, x)).collect::<Option<Vec<RV>>>()?,
        ),
        (RType::Map(e), J::Object(o)) => {
            let mut m = BTreeMap::new();
            for (k, v) in o {
                m.insert(k.as_bytes().to_vec(), decode(e, v)?);
            }
            RV::Map((**e).clone(), m)
        }
        (RType::Map(e), J::Array(pairs)) => {
            let mut m = BTreeMap::new();
            for p in pairs {
                let p = p.as_array()?;
                if p.len() != 2 {
                    return None;
                }
                let k = match decode(&RType::Bytes, &p[0])? {
                    RV::Bytes(b) => b,
                    _ => return None,
                };
                m.insert(k, decode(e, &p[1])?);
            }
            RV::Map((**e).clone(), m)
        }
        _ => return None,
    })
}

/// Model of loading a whole document into a fresh context: Some(values, lists)
/// when it must be accepted.
fn model_load(env: &Env, doc: &J) -> Option<(Ctx, ListState)> {
    let o = doc.as_object()?;
    let mut vals: Ctx = vec![None; env.fields.len()];
    let mut lists = ListState::default();
    for (k, v) in o {
        if k == "$lists" {
            for entry in v.as_array()? {
                let e = entry.as_object()?;
                if e.len() != 2 || !e.contains_key("type") || !e.contains_key("data") {
                    return None;
                }
                let t = type_from_json(&e["type"])?;
                let kind = env.list_kind(&t)?;
                match kind {
                    ListKind::Harness => {
                        // replace the matcher's state for this type
                        lists.sets.retain(|(lt, _), _| *lt != t);
                        for (name, members) in e["data"].as_object()? {
                            let mut s = BTreeSet::new();
                            for m in members.as_array()? {
                                s.insert(rv_from_json(&t, m)?);
                            }
                            lists.sets.insert((t.clone(), name.clone()), s);
                        }
                    }
                    _ => {
                        // a field-less struct: any object, or an empty sequence
                        let ok = e["data"].is_object() || e["data"].as_array().map_or(false, |a| a.is_empty());
                        if !ok {
                            return None;
                        }
                    }
                }
            }
        } else {
            let fi = env.field(k)?;
            vals[fi] = Some(decode(&env.fields[fi].ty, v)?);
        }
    }
    Some((vals, lists))
}

fn type_from_json(j: &J) -> Option<RType> {
    match j {
        J::String(s) => match s.as_str() {
            "Bool" => Some(RType::Bool),
            "Int" => Some(RType::Int),
            "Ip" => Some(RType::Ip),
            "Bytes" => Some(RType::Bytes),
            _ => None,
        },
        J::Object(o) if o.len() == 1 => {
            let (k, v) = o.iter().next()?;
            let inner = type_from_json(v)?;
            match k.as_str() {
                "Array" => Some(RType::arr(inner)),
                "Map" => Some(RType::map(inner)),
                _ => None,
            }
        }
        _ => None,
    }
}

/// serialise a document with `type` before `data` in list entries (the order the
/// engine itself writes), since serde_json::Value would sort the keys
pub(crate) fn doc_to_text(doc: &J) -> String {
    fn w(j: &J, out: &mut String, in_lists: bool) {
        match j {
            J::Object(o) => {
                out.push('{');
                let mut keys: Vec<&String> = o.keys().collect();
                if in_lists && o.contains_key("type") {
                    keys.sort_by_key(|k| if k.as_str() == "type" { 0 } else { 1 });
                }
                for (i, k) in keys.iter().enumerate() {
                    if i > 0 {
                        out.push(',');
                    }
                    out.push_str(&serde_json::to_string(k).unwrap());
                    out.push(':');
                    w(&o[*k], out, false);
                }
                out.push('}');
            }
            J::Array(a) => {
                out.push('[');
                for (i, x) in a.iter().enumerate() {
                    if i > 0 {
                        out.push(',');
                    }
                    w(x, out, in_lists);
                }
                out.push(']');
            }
            other => out.push_str(&serde_json::to_string(other).unwrap()),
        }
    }
    let mut out = String::new();
    match doc {
        J::Object(o) => {
            out.push('{');
            for (i, (k, v)) in o.iter().enumerate() {
                if i > 0 {
                    out.push(',');
                }
                out.push_str(&serde_json::to_string(k).unwrap());
                out.push(':');
                w(v, &mut out, k == "$lists");
            }
            out.push('}');
        }
        other => w(other, &mut out, false),
    }
    out
}

// ---------------------------------------------------------------------------
// mutations

fn count_nodes(j: &J) -> usize {
    1 + match j {
        J::Array(a) => a.iter().map(count_nodes).sum(),
        J::Object(o) => o.values().map(count_nodes).sum(),
        _ => 0,
    }
}

fn mutate_node(j: &mut J, n: &mut usize, r: &mut Rng) -> bool {
    if *n == 0 {
        *n = usize::MAX;
        let replacement = match r.below(12) {
            0 => json!(null),
            1 => json!(true),
            2 => json!(7),
            3 => json!("text"),
            4 => json!([]),
            5 => json!({}),
            6 => json!(256),
            7 => json!(-1),
            8 => json!(9223372036854775808u64),
            9 => json!(1.5),
            10 => json!([j.clone()]), // wrap one level
            _ => match j {
                // unwrap one level / re-encode
                J::Array(a) if !a.is_empty() => a[0].clone(),
                J::String(s) => J::Array(s.bytes().map(|b| json!(b)).collect()),
                J::Object(o) => J::Array(o.iter().map(|(k, v)| json!([k, v])).collect()),
                _ => json!("10.0.0.1"),
            },
        };
        *j = replacement;
        return true;
    }
    *n -= 1;
    match j {
        J::Array(a) => {
            for x in a.iter_mut() {
                if mutate_node(x, n, r) {
                    return true;
                }
                if *n == usize::MAX {
                    return true;
                }
            }
            false
        }
        J::Object(o) => {
            for (_, x) in o.iter_mut() {
                if mutate_node(x, n, r) {
                    return true;
                }
            }
            false
        }
        _ => false,
    }
}

pub(crate) fn degenerate_envs() -> Vec<Env> {
    let mut v = Vec::new();
    // no fields, but lists
    v.push(Env {
        fields: vec![],
        funcs: vec![],
        lists: vec![(RType::Int, ListKind::Harness), (RType::Bytes, ListKind::Always)],
        nil_ne: true,
    });
    // only optional fields (all absent) and lists without values
    v.push(Env {
        fields: vec![
            FieldDesc { name: "num_o".into(), ty: RType::Int, optional: true },
            FieldDesc { name: "m_str_o".into(), ty: RType::map(RType::Bytes), optional: true },
        ],
        funcs: vec![],
        lists: vec![(RType::Ip, ListKind::Harness), (RType::Int, ListKind::Never)],
        nil_ne: true,
    });
    // fields but no lists at all
    v.push(Env {
        fields: vec![
            FieldDesc { name: "str_o".into(), ty: RType::Bytes, optional: true },
            FieldDesc { name: "ml_num_o".into(), ty: RType::map(RType::arr(RType::Int)), optional: true },
        ],
        funcs: vec![],
        lists: vec![],
        nil_ne: true,
    });
    // no fields and no lists
    v.push(Env { fields: vec![], funcs: vec![], lists: vec![], nil_ne: true });
    v
}

#[allow(clippy::too_many_arguments)]
fn round_trip(run: &Run, l: &mut Local, fam: &str, i: u64, eng: &Eng, vals: &Ctx, lists: &ListState, filters: &[(Expr, String)]) {
    let env = &eng.env;
    let ctx = eng.ctx(vals, lists);
    let text = match guard(|| serde_json::to_string(&ctx).map_err(|e| e.to_string())) {
        Ok(Ok(t)) => t,
        other => {
            run.violation(
                "C14/serialise-failed",
                "round-trip",
                fam,
                i,
                json!({"outcome": format!("{:?}", other)}),
            );
            return;
        }
    };
    // the document is JSON and the documented one
    let doc: J = match serde_json::from_str(&text) {
        Ok(d) => d,
        Err(e) => {
            run.violation(
                &format!("C14/serialised-context-is-not-json/fields={}/lists={}", env.fields.len().min(1), env.lists.len().min(1)),
                "round-trip",
                fam,
                i,
                json!({"json": text, "error": e.to_string()}),
            );
            return;
        }
    };
    let want = expected_doc(env, vals, lists);
    if doc != want {
        run.violation(
            "C14/serialised-form-differs",
            "documented-form",
            fam,
            i,
            json!({"json": text, "expected": want}),
        );
    }
    for feed in 0..5 {
        l.evals += 1;
        let res = load(&eng.scheme, &text, feed, |loaded| match loaded {
            Err(e) => Err(format!("load failed: {}", e)),
            Ok(c2) => {
                let back = read_back(env, &eng.scheme, c2)?;
                if back != *vals {
                    return Err("values differ after the round trip".to_string());
                }
                if *c2 != ctx {
                    return Err("contexts compare unequal after the round trip".to_string());
                }
                for (e, t) in filters {
                    let f1 = eng.scheme.parse(t).map_err(|e| e.to_string())?.compile();
                    let a = f1.execute(&ctx).map_err(|e| e.to_string())?;
                    let b = f1.execute(c2).map_err(|e| e.to_string())?;
                    let want = refsem_filter(env, e, vals, lists);
                    if a != b || want.as_ref().ok().map_or(false, |w| *w != a) {
                        return Err(format!("filter `{}` evaluates differently after the round trip", t));
                    }
                }
                Ok(())
            }
        });
        match res {
            Ok(Ok(())) => l.count("round_trips_ok"),
            Ok(Err(e)) => {
                let kind: String = if e.starts_with("filter `") {
                    "filter evaluates differently after the round trip".to_string()
                } else {
                    e.chars().map(|c| if c.is_ascii_digit() { '#' } else { c }).take(70).collect()
                };
                run.violation(
                    &format!(
                        "C14/round-trip/feed={}/scheme-has-list={}/{}",
                        FEEDS[feed],
                        !env.lists.is_empty(),
                        kind
                    ),
                    "round-trip",
                    fam,
                    i,
                    json!({"feed": FEEDS[feed], "json": text.chars().take(600).collect::<String>(), "problem": e}),
                );
            }
            Err(p) => run.violation(
                &format!("C14/round-trip-panics/{}", first_line(&p)),
                "no-panic",
                fam,
                i,
                json!({"feed": FEEDS[feed], "json": text.chars().take(600).collect::<String>(), "panic": p}),
            ),
        }
    }
}

pub fn run(run: &Run) {
    let seed = run.opts.seed;
    let mut envs: Vec<Eng> = (0..4)
        .map(|v| if v % 2 == 1 { Eng::new_after_refusals(rich_env(v)) } else { Eng::new(rich_env(v)) })
        .collect();
    for e in degenerate_envs() {
        envs.push(Eng::new(e));
    }

    // ---- A. round trips through the four feeds
    let n = run.opts.size(25_000, 1_000_000);
    run.parallel("round-trip", n, |i, l| {
        let mut r = Rng::derive(seed, "c14-rt", i);
        let eng = &envs[(i as usize) % envs.len()];
        let env = &eng.env;
        let vals = if i % 11 == 0 {
            // every optional field absent
            env.fields
                .iter()
                .map(|f| if f.optional { None } else { Some(gen_value(&mut r, &f.ty)) })
                .collect()
        } else {
            gen_ctx(&mut r, env)
        };
        let lists = gen_lists(&mut r, env);
        let mut filters = Vec::new();
        if !env.fields.is_empty() && env.fields.iter().any(|f| f.ty == RType::Bool) {
            for k in 0..4 {
                let mut c = GenCfg::full();
                c.calls = !env.funcs.is_empty();
                let mut g = FilterGen::new(env, c, Rng::derive(seed, "c14-f", i * 8 + k));
                let e = g.filter();
                let t = print_filter(env, &e, None);
                filters.push((e, t));
            }
        }
        round_trip(run, l, "round-trip", i, eng, &vals, &lists, &filters);
        run.distinct(hash_str(&format!("{}|{:?}|{:?}", i as usize % envs.len(), vals, lists)));
        if i % 499 == 0 {
            run.sample("round-trip", 3, || show_ctx(env, &vals));
        }
    });

    // ---- B. mutated documents against the acceptance model
    let n = run.opts.size(100_000, 4_000_000);
    run.parallel("mutants", n, |i, l| {
        let mut r = Rng::derive(seed, "c14-mut", i);
        let eng = &envs[(i as usize) % envs.len()];
        let env = &eng.env;
        let vals = gen_ctx(&mut r, env);
        let lists = gen_lists(&mut r, env);
        let mut doc = expected_doc(env, &vals, &lists);
        let kind = r.below(8);
        let mut text_override: Option<String> = None;
        let what = match kind {
            0..=3 => {
                let n = count_nodes(&doc);
                let mut k = r.below(n);
                mutate_node(&mut doc, &mut k, &mut r);
                "node-replaced"
            }
            4 => {
                // unknown / renamed top-level key
                if let J::Object(o) = &mut doc {
                    let keys: Vec<String> = o.keys().cloned().collect();
                    if !keys.is_empty() && r.bool() {
                        let k = r.pick(&keys).clone();
                        let v = o.remove(&k).unwrap();
                        o.insert(format!("{}x", k), v);
                    } else if r.bool() {
                        o.insert("nosuch".into(), json!(1));
                    } else {
                        // unknown names of every length and make-up: empty, very long,
                        // multi-byte characters at every offset, control characters
                        let len = [0usize, 1, 2, 7, 31, 32, 33, 63, 64, 65, 66, 127, 128, 129, 255, 256, 257, 1000, 5000][r.below(19)];
                        let alphabet = ['a', '.', '$', '\u{e9}', '\u{20ac}', '\u{1F600}', '\u{0}', '"', '\\', 'Z'];
                        let mut k = String::new();
                        // a random ASCII prefix shifts the multi-byte characters to every residue
                        for _ in 0..r.below(5) {
                            k.push('x');
                        }
                        while k.len() < len {
                            k.push(alphabet[r.below(alphabet.len())]);
                        }
                        if o.contains_key(&k) || k == "$lists" {
                            k.push_str("\u{e9}?");
                        }
                        o.insert(k, json!(1));
                    }
                }
                "unknown-key"
            }
            5 => {
                // truncate the text
                let t = doc_to_text(&doc);
                if t.len() > 2 {
                    let mut cut = 1 + r.below(t.len() - 1);
                    while !t.is_char_boundary(cut) {
                        cut -= 1;
                    }
                    text_override = Some(t[..cut].to_string());
                }
                "truncated"
            }
            6 => {
                // list section: wrong / unknown / over-deep type, wrong data
                if let J::Object(o) = &mut doc {
                    let entry = match r.below(6) {
                        0 => json!({"type": "Bool", "data": {}}),
                        1 => json!({"type": "Nope", "data": {}}),
                        2 => {
                            let mut t = json!("Int");
                            for _ in 0..(33 + r.below(40)) {
                                t = json!({"Array": t});
                            }
                            json!({"type": t, "data": {}})
                        }
                        3 => json!({"type": "Int"}),
                        4 => json!({"data": {}, "extra": 1, "type": "Int"}),
                        _ => json!({"type": "Int", "data": {"a": ["not-an-int"]}}),
                    };
                    match o.get_mut("$lists") {
                        Some(J::Array(a)) => a.push(entry),
                        _ => {
                            o.insert("$lists".into(), json!([entry]));
                        }
                    }
                }
                "list-section"
            }
            _ => {
                // valid alternative encodings everywhere: must still load and be equal
                doc = reencode(&doc, &mut r, true);
                "re-encoded"
            }
        };
        let text = text_override.clone().unwrap_or_else(|| doc_to_text(&doc));
        let expected = if text_override.is_some() {
            // a proper prefix of a JSON document is never a JSON document
            None
        } else {
            model_load(env, &doc)
        };
        for feed in 0..4 {
            if feed == 3 && (!env.lists.is_empty() || text_override.is_some()) {
                continue; // value trees with lists: known finding, covered by round-trip
            }
            l.evals += 1;
            let res = load(&eng.scheme, &text, feed, |loaded| -> Result<(), String> {
                match (loaded, &expected) {
                    (Err(_), None) => Ok(()),
                    (Ok(c2), None) => {
                        invariant_only(&eng.scheme, c2)?;
                        Err("ACCEPTED a document the model rejects".into())
                    }
                    (Err(e), Some(_)) => Err(format!("REJECTED a valid document: {}", e)),
                    (Ok(c2), Some((mv, ml))) => {
                        let back = read_back(env, &eng.scheme, c2)?;
                        if back != *mv {
                            return Err("loaded values differ from the document".into());
                        }
                        let want_ctx = eng.ctx(mv, ml);
                        if *c2 != want_ctx {
                            return Err("loaded context (incl. list state) differs from the document".into());
                        }
                        Ok(())
                    }
                }
            });
            match res {
                Ok(Ok(())) => {
                    if expected.is_some() {
                        l.count("mutants_accepted");
                    } else {
                        l.count("mutants_rejected");
                    }
                }
                Ok(Err(e)) => {
                    let kind: String = e.chars().map(|c| if c.is_ascii_digit() { '#' } else { c }).take(60).collect();
                    run.violation(
                        &format!("C14/mutant/{}/{}", what, kind),
                        "acceptance-model",
                        "mutants",
                        i,
                        json!({"feed": FEEDS[feed], "json": text.chars().take(700).collect::<String>(), "problem": e,
                               "model_accepts": expected.is_some()}),
                    );
                }
                Err(p) => run.violation(
                    &format!("C14/mutant-panics/{}", first_line(&p)),
                    "no-panic",
                    "mutants",
                    i,
                    json!({"feed": FEEDS[feed], "json": text.chars().take(700).collect::<String>(), "panic": p}),
                ),
            }
        }
        run.distinct(hash_str(&text));
        if i % 1999 == 0 {
            run.sample("mutants", 4, || json!({"mutation": what, "model_accepts": expected.is_some(), "json": text.chars().take(200).collect::<String>()}));
        }
    });

    // ---- C. the C entry points accept the same documents
    let n = run.opts.size(8_000, 200_000);
    run.parallel("ffi", n, |i, l| {
        let mut r = Rng::derive(seed, "c14-ffi", i);
        let env = rich_env((i % 4) as usize);
        let scheme = wirefilter_ffi::Scheme::from(build_scheme(&env));
        let vals = gen_ctx(&mut r, &env);
        let lists = gen_lists(&mut r, &env);
        let doc = expected_doc(&env, &vals, &lists);
        let text = doc_to_text(&doc);
        l.evals += 1;
        let res = guard(|| -> Result<(), String> {
            let mut c = wirefilter_ffi::wirefilter_create_execution_context(&scheme);
            let ok = wirefilter_ffi::wirefilter_deserialize_json_to_execution_context(&mut c, text.as_ptr(), text.len());
            if !ok {
                return Err("wirefilter_deserialize_json_to_execution_context returned false".into());
            }
            let back = read_back(&env, &scheme, &c)?;
            if back != vals {
                return Err("values loaded through the C API differ".into());
            }
            let ser = wirefilter_ffi::wirefilter_serialize_execution_context_to_json(&mut c);
            if ser.status != wirefilter_ffi::Status::Success {
                return Err("serialisation through the C API failed".into());
            }
            let s = unsafe { std::slice::from_raw_parts(ser.json.ptr as *const u8, ser.json.len) };
            let again: J = serde_json::from_slice(s).map_err(|e| e.to_string())?;
            wirefilter_ffi::wirefilter_free_string(ser.json);
            if again != doc {
                return Err("C API serialisation differs from the document".into());
            }
            // single values through add_json_value
            let mut c2 = wirefilter_ffi::wirefilter_create_execution_context(&scheme);
            for (f, v) in env.fields.iter().zip(&vals) {
                if let Some(v) = v {
                    let vt = serde_json::to_string(&v.to_json()).unwrap();
                    let ok = wirefilter_ffi::wirefilter_add_json_value_to_execution_context(
                        &mut c2,
                        f.name.as_ptr() as *const _,
                        f.name.len(),
                        vt.as_ptr(),
                        vt.len(),
                    );
                    if !ok {
                        return Err(format!("add_json_value failed for field {}", f.name));
                    }
                }
            }
            let back2 = read_back(&env, &scheme, &c2)?;
            if back2 != vals {
                return Err("values added through add_json_value differ".into());
            }
            wirefilter_ffi::wirefilter_free_execution_context(c2);
            wirefilter_ffi::wirefilter_free_execution_context(c);
            Ok(())
        });
        match res {
            Ok(Ok(())) => l.count("ffi_ok"),
            Ok(Err(e)) => run.violation(
                &format!("C14/ffi/{}", e.chars().take(60).collect::<String>()),
                "ffi-entry-points",
                "ffi",
                i,
                json!({"problem": e, "json": text.chars().take(400).collect::<String>()}),
            ),
            Err(p) => run.violation(
                &format!("C14/ffi-panics/{}", first_line(&p)),
                "no-panic",
                "ffi",
                i,
                json!({"panic": p}),
            ),
        }
        run.distinct(hash_str(&text));
    });
}

/// Randomly switch Bytes strings to int arrays and objects-under-a-map to pair
/// arrays: both are valid encodings. Only applied below the top level.
fn reencode(j: &J, r: &mut Rng, top: bool) -> J {
    match j {
        J::Object(o) => {
            let inner: serde_json::Map<String, J> = o
                .iter()
                .map(|(k, v)| {
                    if top && k == "$lists" {
                        (k.clone(), v.clone())
                    } else {
                        (k.clone(), reencode(v, r, false))
                    }
                })
                .collect();
            if !top && r.chance(1, 3) {
                J::Array(inner.into_iter().map(|(k, v)| json!([k, v])).collect())
            } else {
                J::Object(inner)
            }
        }
        J::Array(a) => J::Array(a.iter().map(|x| reencode(x, r, false)).collect()),
        other => other.clone(),
    }
}
