//! C11 — regex and wildcard operators match with the documented semantics.

use super::common::*;
use crate::gen::*;
use crate::patterns::{regex_parse, regex_search, wildcard_match_toks, wildcard_parse, wildcard_star_count, WErr};
use crate::printer::regex_quote;
use crate::prng::Rng;
use crate::report::{guard, hash_str, Local, Run};
use crate::rv::show_bytes;
use regex_automata::meta;
use regex_automata::nfa::thompson::WhichCaptures;
use regex_automata::util::syntax;
use regex_automata::MatchKind;
use serde_json::json;
use wirefilter::{ExecutionContext, FilterParser, LhsValue};

const WSYMS: [&[u8]; 5] = [b"a", b"B", b"*", b"\\", b"?"];

fn wild_values() -> Vec<Vec<u8>> {
    let alphabet: [&[u8]; 7] = [b"a", b"A", b"b", b"B", b"*", b"\\", b"?"];
    let mut v: Vec<Vec<u8>> = vec![vec![]];
    let mut frontier: Vec<Vec<u8>> = vec![vec![]];
    for _ in 0..3 {
        let mut next = Vec::new();
        for f in &frontier {
            for s in alphabet {
                let mut x = f.clone();
                x.extend_from_slice(s);
                next.push(x);
            }
        }
        v.extend(next.iter().cloned());
        frontier = next;
    }
    v.push(b"\xff".to_vec());
    v.push(b"a\xffB".to_vec());
    v.push(b"aBaB".to_vec());
    v.push(b"ABAB?".to_vec());
    v.push(b"a\nB".to_vec());
    v.push(b"\x00".to_vec());
    v
}

fn quoted_string(data: &[u8]) -> String {
    let mut s = String::from("\"");
    for &c in data {
        match c {
            b'"' => s.push_str("\\\""),
            b'\\' => s.push_str("\\\\"),
            0x20..=0x7e => s.push(c as char),
            _ => s.push_str(&format!("\\x{:02x}", c)),
        }
    }
    s.push('"');
    s
}

fn base_ctx(eng: &Eng) -> ExecutionContext<'static> {
    let mut ctx = ExecutionContext::<()>::new(&eng.scheme);
    let mut r = Rng::new(9);
    for f in eng.env.fields.iter().filter(|f| !f.optional) {
        let fr = eng.scheme.get_field(&f.name).unwrap();
        ctx.set_field_value(fr, gen_value(&mut r, &f.ty).to_lhs_unwrap()).unwrap();
    }
    ctx
}

fn reference_meta(pattern: &str, compiled_limit: usize, dfa_limit: usize) -> Result<meta::Regex, String> {
    meta::Builder::new()
        .configure(
            meta::Config::new()
                .match_kind(MatchKind::LeftmostFirst)
                .utf8_empty(false)
                .dfa(false)
                .nfa_size_limit(Some(compiled_limit))
                .onepass(false)
                .dfa_size_limit(Some(compiled_limit))
                .hybrid_cache_capacity(dfa_limit)
                .which_captures(WhichCaptures::None),
        )
        .syntax(syntax::Config::new().unicode(false).utf8(false))
        .build(pattern)
        .map_err(|e| e.to_string())
}

fn parse_with(eng: &Eng, text: &str, f: impl FnOnce(&mut FilterParser<'_>)) -> Result<Result<wirefilter::FilterAst, String>, String> {
    guard(|| {
        let mut p = eng.scheme.parser();
        f(&mut p);
        p.parse(text).map_err(|e| e.to_string())
    })
}

fn wildcard_family(run: &Run, eng: &Eng) {
    let max_len = if run.opts.thorough() { 7 } else { 6 };
    let mut total = 0u64;
    let mut p = 1u64;
    for _ in 0..=max_len {
        total += p;
        p *= WSYMS.len() as u64;
    }
    let values = wild_values();
    let field = eng.scheme.get_field("str_m").unwrap();
    run.exhaustive("wildcard", true);
    run.note("wildcard_patterns", json!(total));
    run.note("wildcard_values", json!(values.len()));
    run.parallel("wildcard", total, |i, l| {
        // decode the pattern
        let mut x = i;
        let mut len = 0usize;
        let mut block = 1u64;
        while x >= block {
            x -= block;
            block *= WSYMS.len() as u64;
            len += 1;
        }
        let mut pat: Vec<u8> = Vec::new();
        for _ in 0..len {
            pat.extend_from_slice(WSYMS[(x % WSYMS.len() as u64) as usize]);
            x /= WSYMS.len() as u64;
        }
        let parsed = wildcard_parse(&pat);
        let stars = parsed.as_ref().map(|t| wildcard_star_count(t)).unwrap_or(0);
        let quoted = quoted_string(&pat);
        let raw = format!("r\"{}\"", String::from_utf8_lossy(&pat));
        let mut ctx = base_ctx(eng);
        for (form, lit) in [("quoted", &quoted), ("raw", &raw)] {
            for strict in [false, true] {
                let text = format!("str_m {} {}", if strict { "strict wildcard" } else { "wildcard" }, lit);
                for limit in [Some(0usize), Some(1), Some(2), Some(3), Some(4), None] {
                    l.evals += 1;
                    let expect_ok = parsed.is_ok() && limit.map_or(true, |m| stars <= m);
                    let res = parse_with(eng, &text, |p| {
                        if let Some(m) = limit {
                            p.wildcard_set_star_limit(m)
                        }
                    });
                    let ast = match res {
                        Err(pn) => {
                            run.violation(
                                &format!("C11/wildcard-parse-panic/{}", first_line(&pn)),
                                "no-panic",
                                "wildcard",
                                i,
                                json!({"filter": text, "panic": pn}),
                            );
                            continue;
                        }
                        Ok(Err(e)) => {
                            if expect_ok {
                                run.violation(
                                    &format!("C11/valid-wildcard-rejected/{}/{}", form, error_kind(&e)),
                                    "wildcard-validity",
                                    "wildcard",
                                    i,
                                    json!({"filter": text, "star_limit": limit, "stars": stars, "error": e}),
                                );
                            }
                            l.count("wildcard_rejected");
                            continue;
                        }
                        Ok(Ok(a)) => a,
                    };
                    if !expect_ok {
                        let why = match &parsed {
                            Err(WErr::DoubleStar) => "double-star",
                            Err(WErr::InvalidEscape) => "invalid-escape",
                            Ok(_) => "too-many-stars",
                        };
                        run.violation(
                            &format!("C11/invalid-wildcard-accepted/{}/{}", form, why),
                            "wildcard-validity",
                            "wildcard",
                            i,
                            json!({"filter": text, "star_limit": limit, "stars": stars}),
                        );
                        continue;
                    }
                    l.count("wildcard_accepted");
                    // only evaluate once per (form, strict): under the unlimited parser
                    if limit.is_some() {
                        continue;
                    }
                    let toks = parsed.as_ref().unwrap();
                    let filter = ast.compile();
                    for v in &values {
                        l.evals += 1;
                        let want = wildcard_match_toks(toks, v, !strict);
                        ctx.set_field_value(field, LhsValue::Bytes(v.clone().into())).unwrap();
                        match guard(|| filter.execute(&ctx)) {
                            Ok(Ok(b)) if b == want => {
                                if b {
                                    l.count("wildcard_matches");
                                }
                            }
                            other => run.violation(
                                &format!("C11/wildcard-wrong-answer/{}/strict={}", form, strict),
                                "wildcard-matcher",
                                "wildcard",
                                i,
                                json!({"filter": text, "value": show_bytes(v), "expected": want, "got": format!("{:?}", other)}),
                            ),
                        }
                    }
                }
            }
        }
        if parsed.is_ok() {
            run.distinct(hash_str(&format!("w|{:?}", pat)));
        }
        if i % 2503 == 0 {
            run.sample("wildcard", 5, || json!({"pattern": show_bytes(&pat), "valid": parsed.is_ok(), "stars": stars}));
        }
    });
}

fn regex_values(r: &mut Rng, pattern: &str) -> Vec<Vec<u8>> {
    let mut v: Vec<Vec<u8>> = vec![
        vec![],
        b"a".to_vec(),
        b"A".to_vec(),
        b"hello".to_vec(),
        b"HELLO".to_vec(),
        b"\n".to_vec(),
        b"a\nb".to_vec(),
        b"\xff".to_vec(),
        b"\"".to_vec(),
        b"ab]x".to_vec(),
        // not UTF-8 in every way: lone continuation bytes, truncated and
        // complete multi-byte sequences, at the start, inside and at the end
        b"\x80abc".to_vec(),
        b"\xa9".to_vec(),
        b"a\xbf".to_vec(),
        b"\xc3\xa9l".to_vec(),
        b"h\xe2\x82".to_vec(),
        b"\xe2\x82\xac".to_vec(),
    ];
    // strings built from the pattern's own literal characters
    let lits: Vec<u8> = pattern.bytes().filter(|c| c.is_ascii_alphanumeric()).collect();
    for _ in 0..6 {
        let n = r.below(7);
        v.push(
            (0..n)
                .map(|_| {
                    if !lits.is_empty() && r.chance(3, 4) {
                        lits[r.below(lits.len())]
                    } else {
                        {
                            let alpha: &[u8] = b"abAhel\"\\.x0 \xff\n\x80\xbf\xc3\xa9";
                            alpha[r.below(alpha.len())]
                        }
                    }
                })
                .collect(),
        );
    }
    v
}

fn regex_family(run: &Run, eng: &Eng) {
    let seed = run.opts.seed;
    let field = eng.scheme.get_field("str_m").unwrap();
    let n = run.opts.size(80_000, 3_000_000);
    run.parallel("regex", n, |i, l| {
        let mut r = Rng::derive(seed, "c11-re", i);
        let pattern = gen_regex(&mut r, 2);
        let Some(re) = regex_parse(&pattern) else {
            l.count("regex_outside_subset");
            return;
        };
        let second = match reference_meta(&pattern, 10 << 20, 2 << 20) {
            Ok(m) => m,
            Err(_) => {
                l.count("regex_rejected_by_second_reference");
                return;
            }
        };
        let mut forms: Vec<(String, &'static str)> = vec![(format!("\"{}\"", regex_quote(&pattern)), "quoted")];
        for h in [0u8, 1, 2] {
            if raw_ok(pattern.as_bytes(), h) {
                let hs = "#".repeat(h as usize);
                forms.push((format!("r{}\"{}\"{}", hs, pattern, hs), "raw"));
                break;
            }
        }
        let values = regex_values(&mut r, &pattern);
        let mut ctx = base_ctx(eng);
        for (lit, form) in &forms {
            let op = if r.bool() { "matches" } else { "~" };
            let text = format!("str_m {} {}", op, lit);
            l.evals += 1;
            let ast = match parse_with(eng, &text, |_| {}) {
                Ok(Ok(a)) => a,
                Ok(Err(e)) => {
                    run.violation(
                        &format!("C11/valid-regex-rejected/{}/{}", form, error_kind(&e).chars().take(40).collect::<String>()),
                        "regex-validity",
                        "regex",
                        i,
                        json!({"filter": text, "pattern": pattern, "error": e}),
                    );
                    continue;
                }
                Err(pn) => {
                    run.violation(
                        &format!("C11/regex-parse-panic/{}", first_line(&pn)),
                        "no-panic",
                        "regex",
                        i,
                        json!({"filter": text, "panic": pn}),
                    );
                    continue;
                }
            };
            // (i) the pattern reaches the regex engine unchanged
            let js = serde_json::to_value(&ast).unwrap_or_default();
            if js["rhs"].as_str() != Some(pattern.as_str()) {
                run.violation(
                    &format!("C11/regex-pattern-altered/{}", form),
                    "pattern-transport",
                    "regex",
                    i,
                    json!({"filter": text, "expected_pattern": pattern, "ast_pattern": js["rhs"]}),
                );
            }
            // (ii) unanchored byte-oriented search
            let filter = ast.compile();
            for v in &values {
                l.evals += 1;
                let want = regex_search(&re, v);
                let want2 = second.is_match(v.as_slice());
                if want != want2 {
                    // the two references disagree: not a verdict on the engine
                    l.count("references_disagree");
                    continue;
                }
                ctx.set_field_value(field, LhsValue::Bytes(v.clone().into())).unwrap();
                match guard(|| filter.execute(&ctx)) {
                    Ok(Ok(b)) if b == want => {
                        if b {
                            l.count("regex_matches");
                        } else {
                            l.count("regex_non_matches");
                        }
                    }
                    other => run.violation(
                        &format!("C11/regex-wrong-answer/{}", form),
                        "regex-matcher",
                        "regex",
                        i,
                        json!({"filter": text, "pattern": pattern, "value": show_bytes(v), "expected": want,
                               "got": format!("{:?}", other)}),
                    ),
                }
            }
        }
        run.distinct(hash_str(&pattern));
        if i % 1999 == 0 {
            run.sample("regex", 5, || json!({"pattern": pattern, "forms": forms.iter().map(|f| f.0.clone()).collect::<Vec<_>>()}));
        }
    });
}

fn limits_family(run: &Run, eng: &Eng) {
    let seed = run.opts.seed;
    let limits: [usize; 7] = [1, 100, 1_000, 10_000, 100_000, 1_000_000, 10_000_000];
    let n = run.opts.size(3_000, 60_000);
    run.parallel("regex-limits", n, |i, l| {
        let mut r = Rng::derive(seed, "c11-lim", i);
        let pattern = match i % 6 {
            0 => format!("a{{{}}}", 1 + r.below(3000)),
            1 => format!("(ab|cd){{{}}}", 1 + r.below(800)),
            2 => format!("[a-z]{{{},{}}}", r.below(50), 50 + r.below(2000)),
            3 => format!(".{{{}}}x", r.below(5000)),
            _ => gen_regex(&mut r, 2),
        };
        if pattern.contains('"') {
            return;
        }
        let text = format!("str_m matches r#\"{}\"#", pattern);
        let mut prev_ok = false;
        let mut decisions = Vec::new();
        for lim in limits {
            l.evals += 1;
            let got = parse_with(eng, &text, |p| p.regex_set_compiled_size_limit(lim));
            let got_ok = match got {
                Ok(r) => r.is_ok(),
                Err(pn) => {
                    run.violation(
                        &format!("C11/regex-limit-panic/{}", first_line(&pn)),
                        "no-panic",
                        "regex-limits",
                        i,
                        json!({"pattern": pattern, "limit": lim, "panic": pn}),
                    );
                    return;
                }
            };
            let want_ok = reference_meta(&pattern, lim, 2 << 20).is_ok();
            decisions.push((lim, got_ok));
            if got_ok != want_ok {
                run.violation(
                    &format!("C11/compiled-size-limit-decision/{}", if got_ok { "accepted" } else { "rejected" }),
                    "size-limit",
                    "regex-limits",
                    i,
                    json!({"pattern": pattern, "limit": lim, "engine_accepts": got_ok, "reference_accepts": want_ok}),
                );
            }
            if prev_ok && !got_ok {
                run.violation(
                    "C11/size-limit-not-monotone",
                    "size-limit",
                    "regex-limits",
                    i,
                    json!({"pattern": pattern, "decisions": format!("{:?}", decisions)}),
                );
            }
            prev_ok = got_ok;
            if got_ok {
                l.count("limit_accepts");
            } else {
                l.count("limit_rejects");
            }
        }
        // the DFA cache setting is a different knob: it must not change acceptance
        // of a pattern that fits the compiled-size limit comfortably
        for dfa in [1usize << 20, 8 << 20] {
            l.evals += 1;
            let got = parse_with(eng, &text, |p| p.regex_set_dfa_size_limit(dfa)).map(|r| r.is_ok());
            let want = reference_meta(&pattern, 10 << 20, dfa).is_ok();
            if got != Ok(want) {
                run.violation(
                    "C11/dfa-cache-limit-decision",
                    "size-limit",
                    "regex-limits",
                    i,
                    json!({"pattern": pattern, "dfa_limit": dfa, "engine": format!("{:?}", got), "reference_accepts": want}),
                );
            }
        }
        run.distinct(hash_str(&pattern));
    });

    // fixed points: defaults, huge pattern, invalid regexes
    let fixed: Vec<(&str, bool)> = vec![
        ("a", true),
        ("", true),
        ("(a|b)*c+[d-f]?$", true),
        ("\\xff\\x00", true),
        ("(a{1000}){1000}", false),
        ("(", false),
        ("a)", false),
        ("[a", false),
        ("a{2,1}", false),
        ("*a", false),
        ("\\", false),
        ("(?P<n", false),
        ("[z-a]", false),
        ("\\p{Greek}", false),
    ];
    run.exhaustive("regex-fixed", true);
    run.parallel("regex-fixed", fixed.len() as u64, |i, l| {
        let (pat, ok) = fixed[i as usize];
        for text in [
            format!("str_m matches r#\"{}\"#", pat),
            format!("str_m ~ \"{}\"", regex_quote(pat)),
        ] {
            l.evals += 1;
            // a trailing backslash cannot be written inside a quoted literal
            if pat.ends_with('\\') && text.contains("~ \"") {
                continue;
            }
            match parse_with(eng, &text, |_| {}) {
                Ok(r) if r.is_ok() == ok => {}
                other => run.violation(
                    &format!("C11/regex-fixed/{}", if ok { "valid-rejected" } else { "invalid-accepted" }),
                    "regex-validity",
                    "regex-fixed",
                    i,
                    json!({"filter": text, "expected_accept": ok, "outcome": format!("{:?}", other.map(|r| r.map(|_| ())))}),
                ),
            }
        }
        run.distinct(hash_str(pat));
    });
    let _ = Local::default();
}

/// Patterns that can match the empty string, anchored and not, on every value
/// of length <= 3 over an alphabet of ASCII, newline, UTF-8 lead, continuation
/// and invalid bytes: "byte-oriented" means a match may start and end between
/// any two bytes, including inside what would be a UTF-8 sequence.
fn regex_table_family(run: &Run, eng: &Eng, fam: &'static str, patterns: &[&str], alpha: &[u8], maxlen: usize, sig: &str) {
    let field = eng.scheme.get_field("str_m").unwrap();
    let mut values: Vec<Vec<u8>> = vec![vec![]];
    for len in 1..=maxlen {
        let mut idx = vec![0usize; len];
        loop {
            values.push(idx.iter().map(|k| alpha[*k]).collect());
            let mut p = 0;
            while p < len {
                idx[p] += 1;
                if idx[p] < alpha.len() {
                    break;
                }
                idx[p] = 0;
                p += 1;
            }
            if p == len {
                break;
            }
        }
    }
    run.exhaustive(fam, true);
    run.parallel(fam, patterns.len() as u64, |i, l| {
        let pattern = patterns[i as usize];
        let Some(re) = regex_parse(pattern) else {
            run.inconclusive(format!("reference matcher cannot parse the fixed pattern {:?}", pattern));
            return;
        };
        let second = match reference_meta(pattern, 10 << 20, 2 << 20) {
            Ok(m) => m,
            Err(e) => {
                run.inconclusive(format!("second reference rejects the fixed pattern {:?}: {}", pattern, e));
                return;
            }
        };
        let text = format!("str_m matches \"{}\"", regex_quote(pattern));
        let ast = match parse_with(eng, &text, |_| {}) {
            Ok(Ok(a)) => a,
            other => {
                run.violation(
                    &format!("C11/valid-regex-rejected/{}", sig),
                    "regex-validity",
                    fam,
                    i,
                    json!({"filter": text, "outcome": format!("{:?}", other.map(|r| r.map(|_| ())))}),
                );
                return;
            }
        };
        let filter = ast.compile();
        let mut ctx = base_ctx(eng);
        for v in &values {
            l.evals += 1;
            let want = regex_search(&re, v);
            if want != second.is_match(v.as_slice()) {
                l.count("references_disagree");
                continue;
            }
            ctx.set_field_value(field, LhsValue::Bytes(v.clone().into())).unwrap();
            match guard(|| filter.execute(&ctx)) {
                Ok(Ok(b)) if b == want => l.count(if b { "regex_matches" } else { "regex_non_matches" }),
                other => run.violation(
                    &format!("C11/regex-wrong-answer/{}", sig),
                    "regex-matcher",
                    fam,
                    i,
                    json!({"filter": text, "pattern": pattern, "value": show_bytes(v), "expected": want,
                           "got": format!("{:?}", other)}),
                ),
            }
        }
        run.distinct(hash_str(pattern));
        run.sample(fam, 3, || json!({"pattern": pattern, "values": values.len()}));
    });
}

pub fn run(run: &Run) {
    let eng = Eng::new(scalar_env(true));
    wildcard_family(run, &eng);
    regex_family(run, &eng);
    // patterns that can match the empty string, anchored and not, on every value of
    // length <= 3 over ASCII, newline, UTF-8 lead, continuation and invalid bytes
    regex_table_family(
        run,
        &eng,
        "regex-empty-matches",
        &[
            "", "^", "$", "^$", "a*", "^a*", "^a?", "a*$", "^a*$", "^(a|)", "(?:a|)$", "(a|b)*", "^(www\\.)?", "[^a]*",
            "^[^a]*$", ".*", "^.*$", ".?", "^.?$", "^.?.?$", "\\x80*", "^\\x80", "^\\xbf?a", "\\xc3?$", "^[\\x80-\\xbf]*",
            "^[\\x80-\\xbf]*$", "^[^\\x80]", "a?\\xa9?", "^\\xc3\\xa9", "^\\xc3", "\\xa9$", "^(?:\\xc3|)\\xa9", "^.\\xa9",
            "^[\\x00-\\xff]", "^[\\x00-\\xff]?$", "(^|a)\\x80", "\\x80($|a)",
        ],
        &[b'a', b'\n', 0x80, 0xa9, 0xbf, 0xc3, 0xff],
        3,
        "empty-matching-pattern",
    );
    // non-ASCII characters written literally in the pattern stand for their UTF-8
    // bytes (quoted and raw forms alike)
    regex_table_family(
        run,
        &eng,
        "regex-non-ascii",
        &["\u{e9}", "a\u{e9}", "\u{e9}a", "^\u{e9}$", "a|\u{e9}", "(\u{e9})a", "\u{e9}|\u{c3}", "a.\u{e9}", "[a]\u{e9}", "\u{c2}\u{a9}", "\u{e9}\u{e9}"],
        &[b'a', 0xc3, 0xa9, 0x83, 0xc2],
        4,
        "non-ascii-pattern",
    );
    // anchors in every position relative to alternation, groups and repetition: an
    // anchor constrains its own branch only, the search itself is never anchored
    regex_table_family(
        run,
        &eng,
        "regex-anchors",
        &[
            "^a|b", "a|^b", "^a|^b", "^a|b$", "a$|b", "a$|^b", "^a$|b", "^a|b|^x", "^(a|b)", "(^a|b)", "(a|^b)", "(^a|b)x", "^ab|ba",
            "^a|ba$", "b$|^ab", "(^a)|b", "^(a)|b", "(?:^a|b)a", "^a+|b+", "a*^b|x", "^$|b$", "^|b", "b|^", "$|^a", "a|$", "^a|", "|^a",
            "(?:^|x)a", "a(?:$|x)", "(^a|^b)|x", "x|(^a|^b)", "^[ab]|x", "x|[ab]$", "^a.|.b$", "(?:^a|b$)|(?:x)", "^\\^|b", "\\$a|^b",
        ],
        &[b'a', b'b', b'x', b'\n'],
        4,
        "anchored-branch",
    );
    limits_family(run, &eng);
}
