//! C17 — `in $list` delegates exactly to the context's list matcher.

use super::common::*;
use crate::ast::*;
use crate::engine::{set_lists, take_list_log, HarnessMatcher};
use crate::gen::*;
use crate::printer::print_filter;
use crate::prng::Rng;
use crate::refsem::{Eval, ListState};
use crate::report::{guard, hash_str, Run};
use crate::rv::{RType, RV};
use serde::de::DeserializeSeed;
use serde_json::json;
use std::collections::BTreeSet;
use wirefilter::ExecutionContext;

fn list_env(order: usize, kind: ListKind) -> Env {
    let orders: [[RType; 3]; 6] = [
        [RType::Int, RType::Ip, RType::Bytes],
        [RType::Int, RType::Bytes, RType::Ip],
        [RType::Ip, RType::Int, RType::Bytes],
        [RType::Ip, RType::Bytes, RType::Int],
        [RType::Bytes, RType::Int, RType::Ip],
        [RType::Bytes, RType::Ip, RType::Int],
    ];
    let mut fields = scalar_fields();
    fields.extend(container_fields());
    Env {
        fields,
        funcs: function_family(2),
        lists: orders[order % 6].iter().map(|t| (t.clone(), kind)).collect(),
        nil_ne: true,
    }
}

fn random_name(r: &mut Rng) -> String {
    if r.chance(2, 3) {
        return r.pick(&LIST_NAMES).to_string();
    }
    let n = r.range(1, 12);
    let mut s = String::new();
    for k in 0..n {
        let c = match r.below(8) {
            0 if k > 0 && k + 1 < n => '.',
            1 => '_',
            2 | 3 => (b'0' + r.below(10) as u8) as char,
            _ => (b'a' + r.below(26) as u8) as char,
        };
        s.push(c);
    }
    s
}

/// one `lhs in $name` comparison with the lhs of the requested shape
fn list_cmp(g: &mut FilterGen<'_>, r: &mut Rng, env: &Env, name: &str) -> Option<(Expr, &'static str)> {
    let t = [RType::Int, RType::Ip, RType::Bytes][r.below(3)].clone();
    if !env.has_list(&t) {
        return None;
    }
    let op = CmpOp::InList(name.to_string());
    Some(match r.below(4) {
        0 => {
            // plain field
            let cands: Vec<usize> = env
                .fields
                .iter()
                .enumerate()
                .filter(|(_, f)| f.ty == t)
                .map(|(i, _)| i)
                .collect();
            (Expr::Cmp(Path::field(*r.pick(&cands)), op), "field")
        }
        1 => (Expr::Cmp(g.path_to(&t, Some(false), 9)?, op), "index-path"),
        2 => {
            let p = g.path_to(&t, Some(true), 9)?;
            let q = if r.bool() { QOp::Any } else { QOp::All };
            (
                Expr::Quant(q, QArg::Logical(Box::new(Expr::Cmp(p, op)))),
                "map-each",
            )
        }
        _ => {
            let (fname, ok) = match t {
                RType::Int => ("idn1", true),
                RType::Ip => ("idi1", true),
                RType::Bytes => ("upper1", true),
                _ => ("", false),
            };
            if !ok {
                return None;
            }
            let inner = g.path_to(&t, Some(false), 9)?;
            let call = Call {
                func: env.func(fname)?,
                args: vec![Arg::Path(inner)],
            };
            (
                Expr::Cmp(
                    Path {
                        base: Base::Call(Box::new(call)),
                        idx: vec![],
                    },
                    op,
                ),
                "call-result",
            )
        }
    })
}

pub fn run(run: &Run) {
    let seed = run.opts.seed;
    // every second scheme comes from a builder that also refused redefinitions
    let envs: Vec<Eng> = (0..6)
        .map(|o| {
            let env = list_env(o, ListKind::Harness);
            if o % 2 == 1 {
                Eng::new_after_refusals(env)
            } else {
                Eng::new(env)
            }
        })
        .collect();
    let always = Eng::new(list_env(0, ListKind::Always));
    let never = Eng::new(list_env(1, ListKind::Never));

    // ---- delegation: result and the (name, value) queries the matcher saw
    let n = run.opts.size(80_000, 3_000_000);
    run.parallel("delegation", n, |i, l| {
        let mut r = Rng::derive(seed, "c17-d", i);
        let eng = &envs[r.below(envs.len())];
        let env = &eng.env;
        let name = random_name(&mut r);
        let mut g = FilterGen::new(env, GenCfg { calls: false, ..GenCfg::full() }, Rng::derive(seed, "c17-g", i));
        let Some((expr, shape_name)) = list_cmp(&mut g, &mut r, env, &name) else { return };
        let expr = if r.chance(1, 4) { Expr::not(expr) } else { expr }.normalize();
        let text = print_filter(env, &expr, Some(Rng::derive(seed, "c17-p", i)));
        // contexts whose list members are drawn from the values in the context
        let mut ctxs = Vec::new();
        for _ in 0..4 {
            let vals = gen_ctx(&mut r, env);
            let mut lists = gen_lists(&mut r, env);
            // make hits likely: put some evaluated values into the named list
            let probe = Eval::new(env, &vals, &lists);
            let mut probe = probe;
            let _ = probe.filter(&expr);
            for q in probe.list_queries.iter() {
                if r.bool() {
                    lists
                        .sets
                        .entry((q.value.ty(), name.clone()))
                        .or_default()
                        .insert(q.value.clone());
                }
            }
            ctxs.push((vals, lists));
        }
        let mut log_bad: Option<serde_json::Value> = None;
        let mut nq = 0u64;
        let mut hits = 0u64;
        check_filter_obs(
            run,
            l,
            "C17",
            "delegation",
            i,
            eng,
            &expr,
            &text,
            &ctxs,
            &mut |ev: &Eval<'_>, _ci, _calls, queries| {
                nq += queries.len() as u64;
                if ev.list_queries.as_slice() != queries && log_bad.is_none() {
                    log_bad = Some(json!({
                        "expected": ev.list_queries.iter().map(|q| format!("{} <- {}", q.name, q.value.show())).collect::<Vec<_>>(),
                        "observed": queries.iter().map(|q| format!("{} <- {}", q.name, q.value.show())).collect::<Vec<_>>(),
                    }));
                }
                for q in &ev.list_queries {
                    if ev.lists.sets.get(&(q.value.ty(), q.name.clone())).map_or(false, |s| s.contains(&q.value)) {
                        hits += 1;
                    }
                }
            },
        );
        if let Some(d) = log_bad {
            run.violation(
                &format!("C17/matcher-queried-differently/{}", shape_name),
                "matcher-log",
                "delegation",
                i,
                json!({"filter": text, "log": d}),
            );
        }
        l.add("matcher_queries", nq);
        l.add("matcher_hits", hits);
        l.count(match shape_name {
            "field" => "lhs_field",
            "index-path" => "lhs_index_path",
            "map-each" => "lhs_map_each",
            _ => "lhs_call_result",
        });
        if nq > 0 {
            run.distinct(hash_str(&text));
        }
        if i % 2003 == 0 {
            run.sample("delegation", 4, || json!({"filter": text, "lhs": shape_name}));
        }
    });

    // ---- random filters mixing list comparisons with everything else (results only)
    let n = run.opts.size(40_000, 1_500_000);
    run.parallel("mixed", n, |i, l| {
        let mut r = Rng::derive(seed, "c17-m", i);
        let eng = &envs[r.below(envs.len())];
        let mut g = FilterGen::new(&eng.env, GenCfg::full(), Rng::derive(seed, "c17-mg", i));
        let expr = g.filter();
        let text = print_filter(&eng.env, &expr, Some(Rng::derive(seed, "c17-mp", i)));
        let ctxs: Vec<(Ctx, ListState)> = (0..3)
            .map(|_| {
                let v = gen_ctx(&mut r, &eng.env);
                let ls = gen_lists(&mut r, &eng.env);
                (v, ls)
            })
            .collect();
        let mut uses_list = false;
        check_filter_obs(run, l, "C17", "mixed", i, eng, &expr, &text, &ctxs, &mut |ev, _, _, _| {
            if !ev.list_queries.is_empty() {
                uses_list = true;
            }
        });
        if uses_list {
            run.distinct(hash_str(&text));
        }
    });

    // ---- list names: valid ones accepted, invalid ones make the filter a parse error
    let n = run.opts.size(30_000, 1_000_000);
    run.parallel("names", n, |i, l| {
        let mut r = Rng::derive(seed, "c17-n", i);
        let eng = &envs[r.below(envs.len())];
        let good = random_name(&mut r);
        let bad_char = ['A', 'Z', '-', '/', ':', '%', '\u{e9}', '@', '#', ',', ';', '~', '+'][r.below(13)];
        let pos = r.range(1, good.len().max(1));
        let mut foreign = good.clone();
        foreign.insert(pos.min(good.len()), bad_char);
        foreign.push('z'); // the foreign character is inside the name, not at its end
        let candidates: Vec<(String, bool)> = vec![
            (good.clone(), true),
            (foreign, false),
            (format!(".{}", good), false),
            (format!("{}.", good), false),
            ("".to_string(), false),
        ];
        for (name, valid) in candidates {
            for tmpl in ["num_m in ${}", "(str_m in ${})", "not ipa_m in ${} or tru_m", "any(l_num_m[*] in ${})"] {
                let text = tmpl.replace("{}", &name);
                l.evals += 1;
                let ok = guard(|| eng.scheme.parse(&text).is_ok());
                match ok {
                    Ok(b) if b == valid => {}
                    Ok(b) => run.violation(
                        &format!("C17/list-name/{}", if valid { "valid-name-rejected" } else { "invalid-name-accepted" }),
                        "name-syntax",
                        "names",
                        i,
                        json!({"filter": text, "name": name, "accepted": b}),
                    ),
                    Err(p) => run.violation(
                        &format!("C17/panic/{}", first_line(&p)),
                        "no-panic",
                        "names",
                        i,
                        json!({"filter": text, "panic": p}),
                    ),
                }
            }
        }
        run.distinct(hash_str(&good));
    });

    // ---- no list registered for the type => rejected
    run.exhaustive("no-list", true);
    run.parallel("no-list", 8, |i, l| {
        let have: Vec<RType> = [RType::Int, RType::Ip, RType::Bytes]
            .iter()
            .enumerate()
            .filter(|(k, _)| (i >> k) & 1 == 1)
            .map(|(_, t)| t.clone())
            .collect();
        let mut fields = scalar_fields();
        fields.extend(container_fields());
        let env = Env {
            fields,
            funcs: vec![],
            lists: have.iter().map(|t| (t.clone(), ListKind::Harness)).collect(),
            nil_ne: true,
        };
        let eng = Eng::new(env);
        for (text, t) in [
            ("num_m in $a", Some(RType::Int)),
            ("ipa_m in $a", Some(RType::Ip)),
            ("str_m in $a", Some(RType::Bytes)),
            ("any(l_num_m[*] in $a)", Some(RType::Int)),
            ("m_str_m[\"k\"] in $a", Some(RType::Bytes)),
            ("tru_m in $a", None),
            ("l_num_m in $a", None),
            ("m_ipa_m in $a", None),
        ] {
            l.evals += 1;
            let expect = t.as_ref().map_or(false, |t| have.contains(t));
            let ok = eng.scheme.parse(text).is_ok();
            if ok != expect {
                run.violation(
                    &format!("C17/list-availability/{}", if expect { "rejected" } else { "accepted" }),
                    "list-registered-for-type",
                    "no-list",
                    i,
                    json!({"filter": text, "lists": have.iter().map(|t| t.short()).collect::<Vec<_>>()}),
                );
            }
        }
        run.distinct(i ^ 0x5151);
    });

    // ---- built-in always / never lists on all three types
    let n = run.opts.size(20_000, 1_000_000);
    run.parallel("builtin", n, |i, l| {
        let mut r = Rng::derive(seed, "c17-b", i);
        let eng = if i % 2 == 0 { &always } else { &never };
        let env = &eng.env;
        let name = random_name(&mut r);
        let mut g = FilterGen::new(env, GenCfg { calls: false, ..GenCfg::full() }, Rng::derive(seed, "c17-bg", i));
        let Some((expr, _)) = list_cmp(&mut g, &mut r, env, &name) else { return };
        let expr = expr.normalize();
        let text = print_filter(env, &expr, Some(Rng::derive(seed, "c17-bp", i)));
        let ctxs: Vec<(Ctx, ListState)> = (0..4)
            .map(|_| (gen_ctx(&mut r, env), ListState::default()))
            .collect();
        check_filter(run, l, if i % 2 == 0 { "C17/always-list" } else { "C17/never-list" }, "builtin", i, eng, &expr, &text, &ctxs);
        // the same answers after a serialisation round trip (twice), and after clear()
        let kind = if i % 2 == 0 { "always" } else { "never" };
        for (vals, lists) in &ctxs {
            let Ok(want) = refsem_filter(env, &expr, vals, lists) else { continue };
            let res = guard(|| -> Result<(), String> {
                let filter = eng.scheme.parse(&text).map_err(|e| e.to_string())?.compile();
                let ctx0 = eng.ctx(vals, lists);
                let mut json = serde_json::to_string(&ctx0).map_err(|e| e.to_string())?;
                for round in 1..=2 {
                    let mut fresh = ExecutionContext::<()>::new(&eng.scheme);
                    let mut de = serde_json::Deserializer::from_str(&json);
                    (&mut fresh).deserialize(&mut de).map_err(|e| format!("deserialise: {}", e))?;
                    let got = filter.execute(&fresh).map_err(|e| e.to_string())?;
                    if got != want {
                        return Err(format!("after round trip {}: {} instead of {}", round, got, want));
                    }
                    if fresh != ctx0 {
                        return Err(format!("after round trip {}: contexts compare unequal", round));
                    }
                    let again = serde_json::to_string(&fresh).map_err(|e| e.to_string())?;
                    if again != json {
                        return Err(format!("after round trip {}: serialised form changed", round));
                    }
                    // clear() and set the same fields again: the built-in lists have no state to lose
                    fresh.clear();
                    for (k, f) in env.fields.iter().enumerate() {
                        if let Some(v) = &vals[k] {
                            let field = eng.scheme.get_field(&f.name).unwrap();
                            fresh.set_field_value(field, v.to_lhs_unwrap()).map_err(|e| e.to_string())?;
                        }
                    }
                    let got = filter.execute(&fresh).map_err(|e| e.to_string())?;
                    if got != want {
                        return Err(format!("after round trip {} and clear: {} instead of {}", round, got, want));
                    }
                    drop(fresh);
                    json = again;
                }
                Ok(())
            });
            l.evals += 1;
            match res {
                Ok(Ok(())) => l.count("builtin_round_trips"),
                Ok(Err(e)) => run.violation(
                    &format!("C17/{}-list/round-trip/{}", kind, e.chars().map(|c| if c.is_ascii_digit() { '#' } else { c }).take(60).collect::<String>()),
                    "round-trip",
                    "builtin",
                    i,
                    json!({"filter": text, "list": kind, "problem": e}),
                ),
                Err(p) => run.violation(
                    &format!("C17/panic/{}", first_line(&p)),
                    "no-panic",
                    "builtin",
                    i,
                    json!({"filter": text, "panic": p}),
                ),
            }
        }
        run.distinct(hash_str(&format!("{}|{}", i % 2, text)));
        if i % 701 == 0 {
            run.sample("builtin", 2, || json!({"filter": text, "list": if i % 2 == 0 { "always" } else { "never" }}));
        }
    });

    // ---- histories: mutate matcher / clear / serialise / deserialise / execute
    let n = run.opts.size(15_000, 400_000);
    run.parallel("history", n, |i, l| {
        let mut r = Rng::derive(seed, "c17-h", i);
        let eng = &envs[r.below(envs.len())];
        let env = &eng.env;
        let mut vals = gen_ctx(&mut r, env);
        let mut model = ListState::default();
        let mut ctx: ExecutionContext<'static> = eng.ctx(&vals, &model);
        let steps = r.range(6, 20);
        let mut trace: Vec<String> = Vec::new();
        if r.bool() {
            // prelude: matcher state is put on a context that holds NO field
            // value, then clear(), and only then the fields are set
            let stale = gen_lists(&mut r, env);
            let nothing: Ctx = vec![None; env.fields.len()];
            ctx = eng.ctx(&nothing, &stale);
            ctx.clear();
            for (k, f) in env.fields.iter().enumerate() {
                if let Some(v) = &vals[k] {
                    let field = eng.scheme.get_field(&f.name).unwrap();
                    ctx.set_field_value(field, v.to_lhs_unwrap()).unwrap();
                }
            }
            trace.push(format!("lists({} sets) on a context without values; clear; set fields", stale.sets.len()));
            l.count("history_preludes_on_empty_context");
        }
        for step in 0..steps {
            match r.below(6) {
                0 | 1 => {
                    // mutate: add or remove a member through get_list_matcher_mut
                    let t = [RType::Int, RType::Ip, RType::Bytes][r.below(3)].clone();
                    let name = LIST_NAMES[r.below(3)].to_string();
                    let v = gen_scalar(&mut r, &t);
                    let add = r.chance(3, 4);
                    let list = eng.scheme.get_list(&t.to_engine()).unwrap();
                    let hm = ctx
                        .get_list_matcher_mut(list)
                        .as_any_mut()
                        .downcast_mut::<HarnessMatcher>()
                        .expect("harness matcher");
                    if add {
                        hm.sets.entry(name.clone()).or_default().insert(v.clone());
                        model.sets.entry((t.clone(), name.clone())).or_default().insert(v.clone());
                    } else {
                        if let Some(s) = hm.sets.get_mut(&name) {
                            s.remove(&v);
                        }
                        if let Some(s) = model.sets.get_mut(&(t.clone(), name.clone())) {
                            s.remove(&v);
                        }
                    }
                    trace.push(format!("{} {} {} {}", if add { "add" } else { "remove" }, t.short(), name, v.show()));
                }
                2 => {
                    ctx.clear();
                    model.sets.clear();
                    // clear empties the fields too: restore the mandatory ones
                    for (k, f) in env.fields.iter().enumerate() {
                        if f.optional {
                            vals[k] = None;
                        } else {
                            let field = eng.scheme.get_field(&f.name).unwrap();
                            ctx.set_field_value(field, vals[k].as_ref().unwrap().to_lhs_unwrap()).unwrap();
                        }
                    }
                    trace.push("clear".into());
                }
                3 => {
                    // serialise and read back into a fresh context
                    let text = match guard(|| serde_json::to_string(&ctx).map_err(|e| e.to_string())) {
                        Ok(Ok(t)) => t,
                        other => {
                            run.violation(
                                "C17/history-serialise-failed",
                                "round-trip",
                                "history",
                                i,
                                json!({"trace": trace, "outcome": format!("{:?}", other)}),
                            );
                            return;
                        }
                    };
                    let mut fresh = ExecutionContext::<()>::new(&eng.scheme);
                    let res = guard(|| {
                        let mut de = serde_json::Deserializer::from_str(&text);
                        (&mut fresh).deserialize(&mut de).map_err(|e| e.to_string())
                    });
                    match res {
                        Ok(Ok(())) => {
                            if fresh != ctx {
                                run.violation(
                                    "C17/history-round-trip-differs",
                                    "round-trip",
                                    "history",
                                    i,
                                    json!({"trace": trace, "json": text}),
                                );
                                return;
                            }
                            // the deserialised context borrows from `text`; continue
                            // with an equal, owned one built from the model
                            let ctx_static: ExecutionContext<'static> = own_ctx(eng, &vals, &model);
                            if ctx_static != fresh {
                                run.violation(
                                    "C17/history-deserialised-state-differs-from-model",
                                    "round-trip",
                                    "history",
                                    i,
                                    json!({"trace": trace, "json": text}),
                                );
                                return;
                            }
                            // executions on the deserialised context itself see the
                            // matcher state that was serialised
                            for k in 0..3u64 {
                                let name = LIST_NAMES[r.below(3)].to_string();
                                let mut g = FilterGen::new(env, GenCfg { calls: false, ..GenCfg::full() }, Rng::derive(seed, "c17-hd", i * 64 + step as u64 * 4 + k));
                                let Some((expr, _)) = list_cmp(&mut g, &mut r, env, &name) else { continue };
                                let expr = expr.normalize();
                                let ftext = print_filter(env, &expr, None);
                                let want = Eval::new(env, &vals, &model).filter(&expr);
                                l.evals += 1;
                                match guard(|| eng.scheme.parse(&ftext).map(|a| a.compile().execute(&fresh))) {
                                    Ok(Ok(Ok(b))) if b == want => {}
                                    other => {
                                        run.violation(
                                            "C17/history-execution-on-deserialised-context-differs",
                                            "matcher-state",
                                            "history",
                                            i,
                                            json!({"trace": trace, "filter": ftext, "expected": want, "got": format!("{:?}", other)}),
                                        );
                                        return;
                                    }
                                }
                            }
                            let _ = take_list_log();
                            drop(fresh);
                            ctx = ctx_static;
                            trace.push("serialise+deserialise".into());
                        }
                        other => {
                            run.violation(
                                "C17/history-deserialise-failed",
                                "round-trip",
                                "history",
                                i,
                                json!({"trace": trace, "json": text, "outcome": format!("{:?}", other)}),
                            );
                            return;
                        }
                    }
                }
                _ => {
                    // execute a list comparison and compare with the model
                    let name = LIST_NAMES[r.below(3)].to_string();
                    let mut g = FilterGen::new(env, GenCfg { calls: false, ..GenCfg::full() }, Rng::derive(seed, "c17-hg", i * 32 + step as u64));
                    let Some((expr, _)) = list_cmp(&mut g, &mut r, env, &name) else { continue };
                    let expr = expr.normalize();
                    let text = print_filter(env, &expr, None);
                    let mut ev = Eval::new(env, &vals, &model);
                    let want = ev.filter(&expr);
                    let _ = take_list_log();
                    l.evals += 1;
                    match guard(|| eng.scheme.parse(&text).map(|a| a.compile().execute(&ctx))) {
                        Ok(Ok(Ok(b))) if b == want => {}
                        other => {
                            run.violation(
                                "C17/history-execution-differs",
                                "matcher-state",
                                "history",
                                i,
                                json!({"trace": trace, "filter": text, "expected": want, "got": format!("{:?}", other)}),
                            );
                            return;
                        }
                    }
                    trace.push(format!("execute {}", text));
                }
            }
        }
        l.add("history_steps", steps as u64);
        run.distinct(hash_str(&format!("{:?}", trace)));
        if i % 499 == 0 {
            run.sample("history", 2, || json!(trace));
        }
    });
    let _ = (BTreeSet::<u8>::new(), RV::Bool(true), set_lists);
}

fn own_ctx(eng: &Eng, vals: &Ctx, lists: &ListState) -> ExecutionContext<'static> {
    eng.ctx(vals, lists)
}
