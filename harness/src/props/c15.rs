//! C15 — type and scheme encodings round-trip; over-deep or duplicate input is
//! refused.

use super::common::*;
use crate::prng::Rng;
use crate::report::{guard, hash_str, Local, Run};
use crate::rv::RType;
use serde_json::{json, Value as J};
use wirefilter::{CompoundType, Scheme, SchemeBuilder, Type};
use wirefilter_ffi as ffi;

const PRIMS: [RType; 4] = [RType::Bool, RType::Bytes, RType::Int, RType::Ip];

/// layer string: bit k of `bits` (k = 0 is the OUTERMOST layer) 0 = array, 1 = map
pub(crate) fn build_type(prim: &RType, len: usize, bits: u64) -> RType {
    let mut t = prim.clone();
    for k in (0..len).rev() {
        t = if (bits >> k) & 1 == 0 {
            RType::arr(t)
        } else {
            RType::map(t)
        };
    }
    t
}

fn c_type_by_api(t: &RType) -> ffi::CType {
    match t {
        RType::Bool => ffi::wirefilter_create_primitive_type(ffi::CPrimitiveType::Bool),
        RType::Bytes => ffi::wirefilter_create_primitive_type(ffi::CPrimitiveType::Bytes),
        RType::Int => ffi::wirefilter_create_primitive_type(ffi::CPrimitiveType::Int),
        RType::Ip => ffi::wirefilter_create_primitive_type(ffi::CPrimitiveType::Ip),
        RType::Array(e) => ffi::wirefilter_create_array_type(c_type_by_api(e)),
        RType::Map(e) => ffi::wirefilter_create_map_type(c_type_by_api(e)),
    }
}

fn ffi_json(c: ffi::CType) -> Option<String> {
    let r = ffi::wirefilter_serialize_type_to_json(c);
    if r.status != ffi::Status::Success || r.json.ptr.is_null() {
        return None;
    }
    let s = unsafe { std::slice::from_raw_parts(r.json.ptr as *const u8, r.json.len) };
    let out = String::from_utf8_lossy(s).into_owned();
    ffi::wirefilter_free_string(r.json);
    Some(out)
}

/// the packed form is private: read it from the derived Debug output
fn packed_debug(c: &CompoundType) -> Option<(u32, u8, String)> {
    let s = format!("{:?}", c);
    let get = |key: &str| -> Option<String> {
        let i = s.find(key)? + key.len();
        let rest = &s[i..];
        let end = rest.find([',', ' ', '}']).unwrap_or(rest.len());
        Some(rest[..end].to_string())
    };
    Some((
        get("layers: ")?.parse().ok()?,
        get("len: ")?.parse().ok()?,
        get("primitive: ")?,
    ))
}

fn check_type(run: &Run, l: &mut Local, fam: &str, i: u64, rt: &RType) {
    l.evals += 1;
    let depth = rt.depth();
    let res = guard(|| -> Result<(), (String, J)> {
        let t: Type = rt.to_engine();
        // recursive -> harness form
        if RType::from_engine(t) != *rt {
            return Err(("recursive-form".into(), json!({})));
        }
        // JSON
        let js = serde_json::to_value(t).map_err(|e| ("json-serialize".to_string(), json!(e.to_string())))?;
        if js != rt.to_json() {
            return Err(("json-form".into(), json!({"got": js, "expected": rt.to_json()})));
        }
        let text = serde_json::to_string(&t).unwrap();
        for feed in 0..4 {
            let back: Result<Type, String> = match feed {
                0 => serde_json::from_str(&text).map_err(|e| e.to_string()),
                1 => serde_json::from_slice(text.as_bytes()).map_err(|e| e.to_string()),
                2 => serde_json::from_reader(text.as_bytes()).map_err(|e| e.to_string()),
                _ => serde_json::from_value(js.clone()).map_err(|e| e.to_string()),
            };
            match back {
                Ok(b) if b == t => {}
                other => {
                    return Err((
                        format!("json-round-trip/feed{}", feed),
                        json!({"outcome": format!("{:?}", other)}),
                    ))
                }
            }
        }
        if depth <= 32 {
            // packed form
            let c = CompoundType::from(t);
            if Type::from(c) != t {
                return Err(("packed-round-trip".into(), json!({})));
            }
            let cj = serde_json::to_value(c).map_err(|e| ("packed-json".to_string(), json!(e.to_string())))?;
            if cj != js {
                return Err(("packed-json-form".into(), json!({"got": cj})));
            }
            // C form
            let ct = ffi::CType::from(t);
            if Type::from(ct) != t {
                return Err(("c-round-trip".into(), json!({"ctype": format!("{:?}", ct)})));
            }
            let by_api = c_type_by_api(rt);
            if by_api != ct {
                return Err((
                    "c-constructors-disagree".into(),
                    json!({"from_type": format!("{:?}", ct), "by_api": format!("{:?}", by_api)}),
                ));
            }
            if Type::from(by_api) != t {
                return Err(("c-api-round-trip".into(), json!({})));
            }
            match packed_debug(&c) {
                Some((layers, len, _prim)) => {
                    if layers != ct.layers || len != ct.len || len as usize != depth {
                        return Err((
                            "packed-and-c-forms-differ".into(),
                            json!({"engine": format!("{:?}", c), "c": format!("{:?}", ct)}),
                        ));
                    }
                }
                None => return Err(("packed-debug-unreadable".into(), json!(format!("{:?}", c)))),
            }
            match ffi_json(ct) {
                Some(s) if s == text => {}
                other => return Err(("c-json".into(), json!({"got": other, "expected": text}))),
            }
        }
        Ok(())
    });
    match res {
        Ok(Ok(())) => {}
        Ok(Err((what, detail))) => run.violation(
            &format!("C15/type/{}", what),
            "type-round-trip",
            fam,
            i,
            json!({"type": rt.short(), "layers": depth, "detail": detail}),
        ),
        Err(p) => run.violation(
            &format!("C15/type-panic/{}", first_line(&p)),
            "no-panic",
            fam,
            i,
            json!({"type": rt.short(), "layers": depth, "panic": p}),
        ),
    }
}

pub(crate) fn type_json_text(prim: &str, layers: &[bool]) -> String {
    // layers[0] outermost; true = Map
    let mut s = String::new();
    for m in layers {
        s.push_str(if *m { "{\"Map\":" } else { "{\"Array\":" });
    }
    s.push_str(&format!("\"{}\"", prim));
    for _ in layers {
        s.push('}');
    }
    s
}

pub(crate) fn name_pool(r: &mut Rng) -> String {
    match r.below(9) {
        0 => format!("f{}", r.below(1000)),
        1 => format!("http.request.headers.h{}", r.below(100)),
        2 => format!("a.b.c.d.e.f.g{}", r.below(100)),
        3 => format!("{}{}", "long_segment_".repeat(1 + r.below(12)), r.below(100)),
        4 => format!("caf\u{e9}.\u{4e2d}\u{6587}{}", r.below(100)),
        5 => format!("quote\"back\\slash{}", r.below(100)),
        6 => format!("tab\tnl\nctl\u{1}{}", r.below(100)),
        7 => format!("\u{1F600}emoji{}", r.below(100)),
        _ => format!("UPPER.lower_{}", r.below(100)),
    }
}

pub(crate) fn scheme_desc(s: &Scheme) -> Vec<(String, RType, bool)> {
    s.fields()
        .map(|f| {
            (
                f.name().to_string(),
                RType::from_engine(wirefilter::GetType::get_type(&f)),
                f.optional(),
            )
        })
        .collect()
}

pub fn run(run: &Run) {
    let seed = run.opts.seed;

    // ---- every type with <= 12 layers
    let mut total = 0u64;
    for len in 0..=12u64 {
        total += 4 << len;
    }
    run.exhaustive("types-exhaustive", true);
    run.note("types_up_to_12_layers", json!(total));
    run.parallel("types-exhaustive", total, |i, l| {
        // decode i -> (len, bits, prim)
        let mut x = i;
        let mut len = 0usize;
        loop {
            let block = 4u64 << len;
            if x < block {
                break;
            }
            x -= block;
            len += 1;
        }
        let prim = &PRIMS[(x & 3) as usize];
        let bits = x >> 2;
        let t = build_type(prim, len, bits);
        check_type(run, l, "types-exhaustive", i, &t);
        if len >= 1 {
            run.distinct(i.wrapping_mul(0x9E37_79B9_7F4A_7C15));
        }
        if i % 7001 == 0 {
            run.sample("types-exhaustive", 3, || json!({"type": t.short()}));
        }
    });

    // ---- sampled types with 13..=32 layers (incl. all-array, all-map, alternating)
    let n = run.opts.size(40_000, 1_000_000);
    run.parallel("types-deep", n, |i, l| {
        let mut r = Rng::derive(seed, "c15-deep", i);
        let len = 13 + (i as usize % 20);
        let bits = match (i / 20) % 5 {
            0 => 0,
            1 => u64::MAX,
            2 => 0x5555_5555_5555_5555,
            3 => 0xAAAA_AAAA_AAAA_AAAA,
            _ => r.next(),
        };
        let t = build_type(&PRIMS[r.below(4)], len, bits);
        check_type(run, l, "types-deep", i, &t);
        run.distinct(hash_str(&format!("{}|{}|{:?}", len, bits & ((1u64 << len) - 1), t.primitive())));
        if i % 1999 == 0 {
            run.sample("types-deep", 2, || json!({"layers": len, "type": t.short()}));
        }
    });

    // ---- descriptors with 33..=130 layers: error (33: may round-trip), never a
    // panic, never a different type
    run.exhaustive("types-too-deep", true);
    run.parallel("types-too-deep", (130 - 33 + 1) * 3, |i, l| {
        let layers_n = 33 + (i / 3) as usize;
        let pattern = i % 3;
        let layers: Vec<bool> = (0..layers_n)
            .map(|k| match pattern {
                0 => false,
                1 => true,
                _ => k % 2 == 0,
            })
            .collect();
        let text = type_json_text("Int", &layers);
        for feed in 0..4 {
            l.evals += 1;
            let res = guard(|| -> Result<Type, String> {
                match feed {
                    0 => serde_json::from_str(&text).map_err(|e| e.to_string()),
                    1 => serde_json::from_slice(text.as_bytes()).map_err(|e| e.to_string()),
                    2 => serde_json::from_reader(text.as_bytes()).map_err(|e| e.to_string()),
                    _ => {
                        let v: J = {
                            // build the value tree without the recursion limit
                            let mut v = json!("Int");
                            for m in layers.iter().rev() {
                                v = if *m { json!({"Map": v}) } else { json!({"Array": v}) };
                            }
                            v
                        };
                        serde_json::from_value(v).map_err(|e| e.to_string())
                    }
                }
            });
            match res {
                Ok(Err(_)) => l.count("too_deep_rejected"),
                Ok(Ok(t)) => {
                    // acceptable only if it is exactly the described type
                    let again = serde_json::to_string(&t).unwrap_or_default();
                    if again != text {
                        run.violation(
                            "C15/too-deep-type-read-as-a-different-type",
                            "too-deep-is-error",
                            "types-too-deep",
                            i,
                            json!({"layers": layers_n, "feed": feed, "reserialised": again}),
                        );
                    } else if layers_n > 33 {
                        run.violation(
                            "C15/unrepresentable-type-accepted",
                            "too-deep-is-error",
                            "types-too-deep",
                            i,
                            json!({"layers": layers_n, "feed": feed}),
                        );
                    } else {
                        l.count("layer33_round_tripped");
                    }
                }
                Err(p) => run.violation(
                    &format!("C15/too-deep-type-panics/{}", first_line(&p)),
                    "no-panic",
                    "types-too-deep",
                    i,
                    json!({"layers": layers_n, "feed": feed, "json_prefix": &text[..40.min(text.len())], "panic": p}),
                ),
            }
        }
        // a refusal leaves nothing behind: right after it, on the same thread, every
        // representable depth still reads back (this thread has by now refused many
        // descriptors, one after the other)
        for good_layers in [1usize, 16, 30, 31, 32] {
            let gl: Vec<bool> = (0..good_layers).map(|k| (k + i as usize) % 3 == 0).collect();
            let gtext = type_json_text("Bytes", &gl);
            l.evals += 1;
            match guard(|| serde_json::from_str::<Type>(&gtext).map_err(|e| e.to_string())) {
                Ok(Ok(t)) if serde_json::to_string(&t).unwrap_or_default() == gtext => l.count("valid_type_after_refusals"),
                other => {
                    run.violation(
                        "C15/valid-type-refused-after-earlier-refusals",
                        "type-round-trip",
                        "types-too-deep",
                        i,
                        json!({"layers": good_layers, "json_prefix": &gtext[..60.min(gtext.len())],
                               "outcome": format!("{:?}", other.map(|r| r.map(|_| "a different type")))}),
                    );
                    break;
                }
            }
        }
        // the same descriptor as a field type inside a scheme document
        let sdoc = format!("{{\"f\":{{\"type\":{},\"optional\":false}}}}", text);
        l.evals += 1;
        match guard(|| serde_json::from_str::<Scheme>(&sdoc).map(|s| s.field_count()).map_err(|e| e.to_string())) {
            Ok(Err(_)) => {}
            Ok(Ok(_)) if layers_n <= 33 => {}
            Ok(Ok(_)) => run.violation(
                "C15/scheme-with-unrepresentable-type-accepted",
                "too-deep-is-error",
                "types-too-deep",
                i,
                json!({"layers": layers_n}),
            ),
            Err(p) => run.violation(
                &format!("C15/too-deep-type-in-scheme-panics/{}", first_line(&p)),
                "no-panic",
                "types-too-deep",
                i,
                json!({"layers": layers_n, "panic": p}),
            ),
        }
        run.distinct(hash_str(&text));
    });

    // ---- schemes through four feeds
    let n = run.opts.size(15_000, 500_000);
    run.parallel("schemes", n, |i, l| {
        let mut r = Rng::derive(seed, "c15-scheme", i);
        let nfields = match i % 5 {
            0 => 0,
            1 => 1,
            _ => r.below(41),
        };
        let mut names: Vec<String> = Vec::new();
        let mut b = SchemeBuilder::new();
        let mut desc: Vec<(String, RType, bool)> = Vec::new();
        for _ in 0..nfields {
            let name = name_pool(&mut r);
            if names.contains(&name) {
                // a redefinition is refused and leaves the builder as it was: the
                // serialised scheme below must still be exactly `desc`
                let t2 = build_type(&PRIMS[r.below(4)], r.below(4), r.next());
                let refused = if r.bool() {
                    b.add_optional_field(&name, t2.to_engine()).is_err()
                } else {
                    b.add_field(&name, t2.to_engine()).is_err()
                } && b.add_function(&name, wirefilter::ConcatFunction::new()).is_err();
                if !refused {
                    run.violation("C15/redefinition-accepted-by-the-builder", "scheme-round-trip", "schemes", i, json!({"name": name}));
                    return;
                }
                l.count("refused_redefinitions_before_serialising");
                continue;
            }
            let len = r.below(4);
            let t = build_type(&PRIMS[r.below(4)], len, r.next());
            let opt = r.bool();
            let res = if opt {
                b.add_optional_field(&name, t.to_engine())
            } else {
                b.add_field(&name, t.to_engine())
            };
            if res.is_err() {
                continue;
            }
            names.push(name.clone());
            desc.push((name, t, opt));
        }
        let scheme = b.build();
        let text = match guard(|| serde_json::to_string(&scheme).map_err(|e| e.to_string())) {
            Ok(Ok(t)) => t,
            other => {
                run.violation(
                    "C15/scheme-serialize-failed",
                    "scheme-round-trip",
                    "schemes",
                    i,
                    json!({"outcome": format!("{:?}", other)}),
                );
                return;
            }
        };
        // the document is the documented one
        let mut want = serde_json::Map::new();
        for (n, t, o) in &desc {
            want.insert(n.clone(), json!({"type": t.to_json(), "optional": o}));
        }
        let parsed_doc: J = serde_json::from_str(&text).unwrap_or(J::Null);
        if parsed_doc != J::Object(want) {
            run.violation(
                "C15/scheme-json-form",
                "scheme-round-trip",
                "schemes",
                i,
                json!({"json": text}),
            );
        }
        // order in the serialised text = registration order
        let mut last = 0usize;
        for (n, _, _) in &desc {
            let key = serde_json::to_string(n).unwrap();
            match text[last..].find(&format!("{}:", key)) {
                Some(p) => last += p,
                None => {
                    run.violation(
                        "C15/scheme-json-field-order",
                        "scheme-round-trip",
                        "schemes",
                        i,
                        json!({"json": text, "field": n}),
                    );
                    break;
                }
            }
        }
        let needs_escape = desc.iter().any(|(n, _, _)| serde_json::to_string(n).unwrap().len() != n.len() + 2);
        for feed in 0..4 {
            l.evals += 1;
            let (res, expected_order): (Result<Result<Scheme, String>, String>, Vec<String>) = match feed {
                0 => (
                    guard(|| serde_json::from_str::<Scheme>(&text).map_err(|e| e.to_string())),
                    desc.iter().map(|d| d.0.clone()).collect(),
                ),
                1 => (
                    guard(|| serde_json::from_slice::<Scheme>(text.as_bytes()).map_err(|e| e.to_string())),
                    desc.iter().map(|d| d.0.clone()).collect(),
                ),
                2 => (
                    guard(|| serde_json::from_reader::<_, Scheme>(text.as_bytes()).map_err(|e| e.to_string())),
                    desc.iter().map(|d| d.0.clone()).collect(),
                ),
                _ => {
                    let order: Vec<String> = parsed_doc
                        .as_object()
                        .map(|o| o.keys().cloned().collect())
                        .unwrap_or_default();
                    let v = parsed_doc.clone();
                    (
                        guard(move || serde_json::from_value::<Scheme>(v).map_err(|e| e.to_string())),
                        order,
                    )
                }
            };
            let feed_name = ["str", "slice", "reader", "value"][feed];
            match res {
                Ok(Ok(s2)) => {
                    let got = scheme_desc(&s2);
                    let mut want: Vec<(String, RType, bool)> = Vec::new();
                    for n in &expected_order {
                        if let Some(d) = desc.iter().find(|d| &d.0 == n) {
                            want.push(d.clone());
                        }
                    }
                    if got != want {
                        run.violation(
                            &format!("C15/scheme-round-trip-differs/feed={}", feed_name),
                            "scheme-round-trip",
                            "schemes",
                            i,
                            json!({"json": text, "got": format!("{:?}", got)}),
                        );
                    }
                    l.count("scheme_feeds_ok");
                }
                Ok(Err(e)) => run.violation(
                    &format!(
                        "C15/scheme-round-trip-fails/feed={}/escaped-names={}",
                        feed_name, needs_escape
                    ),
                    "scheme-round-trip",
                    "schemes",
                    i,
                    json!({"json": text, "error": e, "fields": desc.len()}),
                ),
                Err(p) => run.violation(
                    &format!("C15/scheme-deserialize-panics/{}", first_line(&p)),
                    "no-panic",
                    "schemes",
                    i,
                    json!({"json": text, "panic": p}),
                ),
            }
        }
        // duplicate names: splice an existing entry in again
        if let Some((n, t, _)) = desc.first() {
            let dup = format!(
                "{}{}{}:{{\"type\":{},\"optional\":true}}}}",
                &text[..text.len() - 1],
                if desc.is_empty() { "" } else { "," },
                serde_json::to_string(n).unwrap(),
                t.to_json()
            );
            for feed in 0..3 {
                l.evals += 1;
                let res = guard(|| match feed {
                    0 => serde_json::from_str::<Scheme>(&dup).map(|s| s.field_count()).map_err(|e| e.to_string()),
                    1 => serde_json::from_slice::<Scheme>(dup.as_bytes()).map(|s| s.field_count()).map_err(|e| e.to_string()),
                    _ => serde_json::from_reader::<_, Scheme>(dup.as_bytes()).map(|s| s.field_count()).map_err(|e| e.to_string()),
                });
                match res {
                    Ok(Err(_)) => l.count("duplicates_rejected"),
                    Ok(Ok(n)) => run.violation(
                        &format!("C15/duplicate-field-accepted/feed={}", ["str", "slice", "reader"][feed]),
                        "duplicates-rejected",
                        "schemes",
                        i,
                        json!({"json": dup, "fields_after": n}),
                    ),
                    Err(p) => run.violation(
                        &format!("C15/duplicate-field-panics/{}", first_line(&p)),
                        "no-panic",
                        "schemes",
                        i,
                        json!({"json": dup, "panic": p}),
                    ),
                }
            }
        }
        if desc.len() >= 2 {
            run.distinct(hash_str(&text));
        }
        if i % 499 == 0 {
            run.sample("schemes", 3, || json!({"fields": desc.len(), "json_prefix": text.chars().take(200).collect::<String>()}));
        }
    });
}
