//! C20 — the C API mirrors the Rust API and reports failures via status and
//! last-error. The exported functions are called as Rust functions from the
//! rlib, side by side with the Rust API on the same inputs.

use super::common::*;
use crate::ast::Env;
use crate::ctxfn::{set_boom, set_boom_tag, BoomFn};
use crate::engine::build_scheme_builder;
use crate::gen::*;
use crate::printer::print_filter;
use crate::prng::{fnv1a, Rng};
use crate::refsem::ListState;
use crate::report::{guard, hash_str, Local, Run};
use crate::rv::{RType, RV};
use serde_json::json;
use std::ffi::CStr;
use std::net::IpAddr;
use wirefilter_ffi as ffi;

fn last_error() -> Option<Vec<u8>> {
    let p = ffi::wirefilter_get_last_error();
    if p.is_null() {
        None
    } else {
        Some(unsafe { CStr::from_ptr(p) }.to_bytes().to_vec())
    }
}

fn r_bool_static(i: u64) -> bool {
    i % 2 == 0
}

fn c_text(s: &str) -> Vec<u8> {
    // what a NUL-terminated message carrying `s` must look like
    s.bytes().map(|b| if b == 0 { 0x1a } else { b }).collect()
}

fn take_string(s: ffi::RustAllocatedString) -> String {
    let out = if s.ptr.is_null() {
        String::new()
    } else {
        let b = unsafe { std::slice::from_raw_parts(s.ptr as *const u8, s.len) };
        String::from_utf8_lossy(b).into_owned()
    };
    ffi::wirefilter_free_string(s);
    out
}

struct CWorld {
    env: Env,
    scheme: Box<ffi::Scheme>,
}

fn c_world(variant: usize) -> CWorld {
    let env = rich_env(variant);
    // the builder is filled through the Rust API (the wrapper derefs to it) so
    // that optional fields, functions and the harness list can be registered
    let mut b = build_scheme_builder(&env);
    b.add_function("kaboom", BoomFn).unwrap();
    let scheme = ffi::wirefilter_build_scheme(Box::new(ffi::SchemeBuilder::from(b)));
    CWorld { env, scheme }
}

/// After `wirefilter_clear_last_error`, a failing call must leave exactly this
/// message; a succeeding one must leave none.
fn expect_error(run: &Run, fam: &str, i: u64, call: &str, want: Option<&str>, detail: serde_json::Value) {
    let got = last_error();
    match (want, got) {
        (None, None) => {}
        (None, Some(g)) => run.violation(
            &format!("C20/success-left-an-error-message/{}", call),
            "last-error",
            fam,
            i,
            json!({"call": call, "message": String::from_utf8_lossy(&g), "detail": detail}),
        ),
        (Some(_), None) => run.violation(
            &format!("C20/failure-without-last-error/{}", call),
            "last-error",
            fam,
            i,
            json!({"call": call, "detail": detail}),
        ),
        (Some(w), Some(g)) => {
            if !w.is_empty() && g != c_text(w) {
                run.violation(
                    &format!("C20/last-error-text-differs/{}", call),
                    "last-error",
                    fam,
                    i,
                    json!({"call": call, "expected": w, "got": String::from_utf8_lossy(&g), "detail": detail}),
                );
            } else if g.is_empty() {
                run.violation(
                    &format!("C20/empty-last-error/{}", call),
                    "last-error",
                    fam,
                    i,
                    json!({"call": call, "detail": detail}),
                );
            }
        }
    }
}

/// `keep` receives the buffers the context borrows (the C API does not copy
/// byte values: the caller keeps them alive as long as the context).
fn set_values(
    w: &CWorld,
    ctx: &mut ffi::ExecutionContext<'_>,
    vals: &Ctx,
    r: &mut Rng,
    keep: &mut Vec<Box<[u8]>>,
) -> Result<(), String> {
    for (f, v) in w.env.fields.iter().zip(vals) {
        let Some(v) = v else { continue };
        let name = f.name.as_bytes();
        let (np, nl) = (name.as_ptr() as *const _, name.len());
        // scalars sometimes through the typed setters, everything else as JSON
        let ok = match (v, r.below(2)) {
            (RV::Int(x), 0) => ffi::wirefilter_add_int_value_to_execution_context(ctx, np, nl, x.clone()),
            (RV::Bool(x), 0) => ffi::wirefilter_add_bool_value_to_execution_context(ctx, np, nl, x.clone()),
            (RV::Bytes(x), 0) => {
                // value_ptr must be non-null even for an empty value
                let buf: Box<[u8]> = if x.is_empty() { vec![0u8] } else { x.clone() }.into_boxed_slice();
                keep.push(buf);
                let p = keep.last().unwrap().as_ptr();
                ffi::wirefilter_add_bytes_value_to_execution_context(ctx, np, nl, p, x.len())
            }
            (RV::Ip(IpAddr::V4(a)), 0) => ffi::wirefilter_add_ipv4_value_to_execution_context(ctx, np, nl, &a.octets()),
            (RV::Ip(IpAddr::V6(a)), 0) => ffi::wirefilter_add_ipv6_value_to_execution_context(ctx, np, nl, &a.octets()),
            _ => {
                let mut js = serde_json::to_string(&v.to_json()).unwrap().into_bytes();
                let ok = ffi::wirefilter_add_json_value_to_execution_context(ctx, np, nl, js.as_ptr(), js.len());
                // the JSON text is lent for the duration of the call only
                js.iter_mut().for_each(|b| *b = b'#');
                drop(js);
                ok
            }
        };
        if !ok {
            return Err(format!("setting field {} through the C API failed", f.name));
        }
    }
    Ok(())
}

fn differential(run: &Run, l: &mut Local, i: u64, w: &CWorld, text: &str, r: &mut Rng) {
    l.evals += 1;
    let scheme: &wirefilter::Scheme = &w.scheme;
    let rust = scheme.parse(text).map_err(|e| e.to_string());
    ffi::wirefilter_clear_last_error();
    let c = ffi::wirefilter_parse_filter(&w.scheme, text.as_ptr() as *const _, text.len());
    match (&rust, c.status) {
        (Err(e), ffi::Status::Error) => {
            if c.ast.is_some() {
                run.violation("C20/parse-error-with-ast", "mirror", "differential", i, json!({"filter": text}));
            }
            expect_error(run, "differential", i, "parse_filter", Some(e), json!({"filter": text}));
            l.count("parse_errors_compared");
            return;
        }
        (Ok(_), ffi::Status::Success) => {
            expect_error(run, "differential", i, "parse_filter", None, json!({"filter": text}));
        }
        (r, s) => {
            run.violation(
                &format!("C20/parse-outcome-differs/c={:?}/rust_ok={}", s, r.is_ok()),
                "mirror",
                "differential",
                i,
                json!({"filter": text, "c_status": format!("{:?}", s)}),
            );
            return;
        }
    }
    let rust_ast = rust.unwrap();
    let c_ast = c.ast.unwrap();
    // JSON and hash
    let rj = serde_json::to_string(&rust_ast).unwrap();
    let sj = ffi::wirefilter_serialize_filter_to_json(&c_ast);
    let ok_status = sj.status == ffi::Status::Success;
    let cj = take_string(sj.json);
    if !ok_status || cj != rj {
        run.violation("C20/ast-json-differs", "mirror", "differential", i, json!({"filter": text, "rust": rj, "c": cj}));
    }
    let h = ffi::wirefilter_get_filter_hash(&c_ast);
    if h.status != ffi::Status::Success || h.hash != fnv1a(rj.as_bytes()) {
        run.violation("C20/hash-is-not-fnv-of-json", "mirror", "differential", i, json!({"filter": text, "hash": h.hash}));
    }
    // uses / uses_list for every field and a few unknown names
    let mut names: Vec<String> = w.env.fields.iter().map(|f| f.name.clone()).collect();
    names.push("nosuch".into());
    names.push("upper1".into());
    names.push("num".into());
    for n in names.iter() {
        for list in [false, true] {
            l.evals += 1;
            let want = if list { rust_ast.uses_list(n) } else { rust_ast.uses(n) };
            ffi::wirefilter_clear_last_error();
            let got = if list {
                ffi::wirefilter_filter_uses_list(&c_ast, n.as_ptr() as *const _, n.len())
            } else {
                ffi::wirefilter_filter_uses(&c_ast, n.as_ptr() as *const _, n.len())
            };
            let call = if list { "filter_uses_list" } else { "filter_uses" };
            match (&want, &got.status) {
                (Ok(b), ffi::Status::Success) if *b == got.used => {
                    expect_error(run, "differential", i, call, None, json!({"filter": text, "name": n}))
                }
                (Err(e), ffi::Status::Error) => {
                    expect_error(run, "differential", i, call, Some(&e.to_string()), json!({"filter": text, "name": n}))
                }
                _ => run.violation(
                    &format!("C20/{}-differs", call),
                    "mirror",
                    "differential",
                    i,
                    json!({"filter": text, "name": n, "rust": format!("{:?}", want), "c_status": format!("{:?}", got.status), "c_used": got.used}),
                ),
            }
        }
    }
    // compile and match
    let rust_filter = rust_ast.compile();
    let cc = ffi::wirefilter_compile_filter(c_ast);
    if cc.status != ffi::Status::Success || cc.filter.is_none() {
        run.violation("C20/compile-failed", "mirror", "differential", i, json!({"filter": text}));
        return;
    }
    let c_filter = cc.filter.unwrap();
    for _ in 0..2 {
        let vals = gen_ctx(r, &w.env);
        let lists = gen_lists(r, &w.env);
        let mut keep: Vec<Box<[u8]>> = Vec::new();
        let mut cctx = ffi::wirefilter_create_execution_context(&w.scheme);
        if let Err(e) = set_values(w, &mut cctx, &vals, r, &mut keep) {
            run.violation("C20/setter-failed-on-valid-value", "mirror", "differential", i, json!({"problem": e}));
            continue;
        }
        crate::engine::set_lists(&mut cctx, scheme, &w.env, &lists);
        // the same context through the Rust API
        let rctx = crate::engine::build_ctx(scheme, &w.env, &vals, &lists);
        if **cctx != rctx {
            run.violation("C20/context-built-through-c-api-differs", "mirror", "differential", i, json!({"ctx": show_ctx(&w.env, &vals)}));
        }
        l.evals += 1;
        let want = rust_filter.execute(&rctx);
        ffi::wirefilter_clear_last_error();
        let got = ffi::wirefilter_match(&c_filter, &cctx);
        match (want, &got.status) {
            (Ok(b), ffi::Status::Success) if b == got.matched => {
                expect_error(run, "differential", i, "match", None, json!({"filter": text}));
                l.count("matches_compared");
            }
            (want, _) => run.violation(
                "C20/match-result-differs",
                "mirror",
                "differential",
                i,
                json!({"filter": text, "rust": format!("{:?}", want), "c_status": format!("{:?}", got.status), "c_matched": got.matched,
                       "ctx": show_ctx(&w.env, &vals)}),
            ),
        }
        // context serialisation
        let want_json = serde_json::to_string(&rctx).unwrap();
        let sj = ffi::wirefilter_serialize_execution_context_to_json(&mut cctx);
        let got_json = take_string(sj.json);
        if sj.status != ffi::Status::Success || got_json != want_json {
            run.violation("C20/context-json-differs", "mirror", "differential", i, json!({"rust": want_json, "c": got_json}));
        }
        ffi::wirefilter_free_execution_context(cctx);
        drop(keep);
    }
    ffi::wirefilter_free_compiled_filter(c_filter);
}

pub fn run(run: &Run) {
    let seed = run.opts.seed;
    let worlds: Vec<CWorld> = (0..2).map(c_world).collect();
    // the catcher's hook on top of the harness's quiet hook; catching is
    // enabled per thread below
    ffi::panic::wirefilter_set_panic_catcher_hook();

    // ---- A. differential: valid and broken filters through both APIs
    let n = run.opts.size(30_000, 1_000_000);
    run.parallel("differential", n, |i, l| {
        ffi::panic::wirefilter_enable_panic_catcher();
        let mut r = Rng::derive(seed, "c20-d", i);
        let w = &worlds[r.below(worlds.len())];
        let mut cfg = GenCfg::full();
        cfg.regex = true;
        cfg.max_depth = r.range(1, 4);
        let mut g = FilterGen::new(&w.env, cfg, Rng::derive(seed, "c20-g", i));
        let e = g.filter();
        let mut text = print_filter(&w.env, &e, Some(Rng::derive(seed, "c20-p", i)));
        match i % 4 {
            1 => {
                // break it: drop or insert a character, NUL, 0x1a, multi-line
                let mut chars: Vec<char> = text.chars().collect();
                if !chars.is_empty() {
                    let pos = r.below(chars.len());
                    match r.below(5) {
                        0 => {
                            chars.remove(pos);
                        }
                        1 => chars.insert(pos, '\0'),
                        2 => chars.insert(pos, '\u{1a}'),
                        3 => chars.truncate(pos),
                        _ => chars.insert(pos, '\n'),
                    }
                }
                text = chars.into_iter().collect();
            }
            2 if i % 8 == 2 => text = format!("{}\0", text),
            _ => {}
        }
        if let Err(p) = guard(|| differential(run, l, i, w, &text, &mut r)) {
            run.violation(
                &format!("C20/panic-escaped/{}", first_line(&p)),
                "no-unwind",
                "differential",
                i,
                json!({"filter": text, "panic": p}),
            );
        }
        run.distinct(hash_str(&text));
        if i % 997 == 0 {
            run.sample("differential", 4, || json!({"filter": text.chars().take(200).collect::<String>()}));
        }
    });

    // ---- B. inputs that are not UTF-8 / names with NUL
    run.exhaustive("invalid-text", true);
    run.parallel("invalid-text", 6, |i, l| {
        let w = &worlds[0];
        l.evals += 1;
        let bad: &[u8] = match i {
            0 => b"num_m == 1 \xff",
            1 => b"\xc3",
            2 => b"str_m == \"\xff\"",
            3 => b"\xf0\x9f",
            4 => b"tru_m\x80",
            _ => b"\xfe\xff",
        };
        let utf8_err = std::str::from_utf8(bad).unwrap_err().to_string();
        ffi::wirefilter_clear_last_error();
        let c = ffi::wirefilter_parse_filter(&w.scheme, bad.as_ptr() as *const _, bad.len());
        if c.status != ffi::Status::Error || c.ast.is_some() {
            run.violation("C20/non-utf8-filter-not-an-error", "mirror", "invalid-text", i, json!({"status": format!("{:?}", c.status)}));
        }
        expect_error(run, "invalid-text", i, "parse_filter(non-utf8)", Some(&utf8_err), json!({}));
        // uses() with a non-UTF-8 name
        let ok = "tru_m";
        let ast = ffi::wirefilter_parse_filter(&w.scheme, ok.as_ptr() as *const _, ok.len()).ast.unwrap();
        for list in [false, true] {
            ffi::wirefilter_clear_last_error();
            let u = if list {
                ffi::wirefilter_filter_uses_list(&ast, bad.as_ptr() as *const _, bad.len())
            } else {
                ffi::wirefilter_filter_uses(&ast, bad.as_ptr() as *const _, bad.len())
            };
            if u.status != ffi::Status::Error {
                run.violation("C20/non-utf8-name-not-an-error", "mirror", "invalid-text", i, json!({"list": list}));
            }
            expect_error(run, "invalid-text", i, "filter_uses(non-utf8)", Some(&utf8_err), json!({}));
        }
        ffi::wirefilter_free_parsed_filter(ast);
        // a field name containing NUL: usable, and errors mentioning it are sanitised
        let mut b = ffi::wirefilter_create_scheme_builder();
        let name = "a\0b";
        let t = ffi::wirefilter_create_primitive_type(ffi::CPrimitiveType::Int);
        ffi::wirefilter_clear_last_error();
        if !ffi::wirefilter_add_type_field_to_scheme(&mut b, name.as_ptr() as *const _, name.len(), t) {
            run.violation("C20/field-name-with-nul-rejected", "mirror", "invalid-text", i, json!({}));
        }
        ffi::wirefilter_clear_last_error();
        let dup = ffi::wirefilter_add_type_field_to_scheme(&mut b, name.as_ptr() as *const _, name.len(), t);
        if dup {
            run.violation("C20/duplicate-field-accepted", "mirror", "invalid-text", i, json!({}));
        }
        expect_error(run, "invalid-text", i, "add_type_field_to_scheme(duplicate)", Some("attempt to redefine field a\0b"), json!({}));
        ffi::wirefilter_clear_last_error();
        let l1 = ffi::wirefilter_add_always_list_to_scheme(&mut b, t);
        let l2 = ffi::wirefilter_add_never_list_to_scheme(&mut b, t);
        if !l1 || l2 {
            run.violation("C20/list-registration-result", "mirror", "invalid-text", i, json!({"first": l1, "second": l2}));
        }
        expect_error(run, "invalid-text", i, "add_never_list_to_scheme(duplicate)", Some(""), json!({}));
        ffi::wirefilter_free_scheme_builder(b);
        run.distinct(i ^ 0x20);
    });

    // ---- C. typed setters and JSON entry points: every failure has a message
    let n = run.opts.size(15_000, 500_000);
    run.parallel("setters", n, |i, l| {
        let mut r = Rng::derive(seed, "c20-s", i);
        let w = &worlds[r.below(worlds.len())];
        let mut keep: Vec<Vec<u8>> = Vec::new();
        let mut ctx = ffi::wirefilter_create_execution_context(&w.scheme);
        let scheme: &wirefilter::Scheme = &w.scheme;
        for _ in 0..12 {
            l.evals += 1;
            // pick a target name: a field (any type) or an unknown name
            let (name, fty): (String, Option<RType>) = if r.chance(1, 5) {
                ("nosuch.field".to_string(), None)
            } else {
                let f = &w.env.fields[r.below(w.env.fields.len())];
                (f.name.clone(), Some(f.ty.clone()))
            };
            let (np, nl) = (name.as_ptr() as *const _, name.len());
            let kind = r.below(7);
            ffi::wirefilter_clear_last_error();
            let (call, ok, vty): (&str, bool, Option<RType>) = match kind {
                0 => ("add_int_value", ffi::wirefilter_add_int_value_to_execution_context(&mut ctx, np, nl, gen_int(&mut r)), Some(RType::Int)),
                1 => ("add_bool_value", ffi::wirefilter_add_bool_value_to_execution_context(&mut ctx, np, nl, r.bool()), Some(RType::Bool)),
                2 => {
                    let b = {
                        let mut b = gen_bytes(&mut r);
                        if b.is_empty() {
                            b.push(b'x');
                        }
                        b
                    };
                    keep.push(b);
                    let (p, n) = (keep.last().unwrap().as_ptr(), keep.last().unwrap().len());
                    ("add_bytes_value", ffi::wirefilter_add_bytes_value_to_execution_context(&mut ctx, np, nl, p, n), Some(RType::Bytes))
                }
                3 => ("add_ipv4_value", ffi::wirefilter_add_ipv4_value_to_execution_context(&mut ctx, np, nl, &[10, 0, 0, r.next() as u8]), Some(RType::Ip)),
                4 => ("add_ipv6_value", ffi::wirefilter_add_ipv6_value_to_execution_context(&mut ctx, np, nl, &[r.next() as u8; 16]), Some(RType::Ip)),
                5 => {
                    // JSON of the right or of another type
                    let t = if r.bool() { fty.clone().unwrap_or(RType::Int) } else { crate::props::c08::gen_type(&mut r, 2) };
                    let v = gen_value(&mut r, &t);
                    let js = serde_json::to_string(&v.to_json()).unwrap();
                    let ok = ffi::wirefilter_add_json_value_to_execution_context(&mut ctx, np, nl, js.as_ptr(), js.len());
                    ("add_json_value", ok, None)
                }
                _ => {
                    let js = ["", "{", "[1,", "nul", "\"abc", "{\"a\":}"][r.below(6)];
                    let ok = ffi::wirefilter_add_json_value_to_execution_context(&mut ctx, np, nl, js.as_ptr(), js.len());
                    ("add_json_value(malformed)", ok, None)
                }
            };
            // expected outcome for the typed setters
            if let Some(vt) = &vty {
                let want_ok = fty.as_ref() == Some(vt);
                if ok != want_ok {
                    run.violation(
                        &format!("C20/{}-outcome", call),
                        "mirror",
                        "setters",
                        i,
                        json!({"field": name, "field_type": fty.as_ref().map(|t| t.short()), "value_type": vt.short(), "returned": ok}),
                    );
                }
            } else if call.contains("malformed") && ok {
                run.violation("C20/malformed-json-value-accepted", "mirror", "setters", i, json!({"field": name}));
            }
            if ok {
                expect_error(run, "setters", i, call, None, json!({"field": name}));
                l.count("setter_successes");
            } else {
                expect_error(run, "setters", i, call, Some(""), json!({"field": name, "field_type": fty.as_ref().map(|t| t.short())}));
                l.count("setter_failures");
            }
            // the stored value always has the declared type
            if let Some(ft) = &fty {
                let field = scheme.get_field(&name).unwrap();
                if let Some(v) = ctx.get_field_value(field) {
                    match RV::from_lhs(v) {
                        Ok(rv) if rv.ty() == *ft => {}
                        other => run.violation(
                            "C20/setter-stored-ill-typed-value",
                            "deep-type-invariant",
                            "setters",
                            i,
                            json!({"field": name, "stored": format!("{:?}", other.map(|v| v.ty().short()))}),
                        ),
                    }
                }
            }
        }
        // whole-context JSON: malformed / wrong documents
        for doc in ["", "{", "[]", "{\"nosuch\":1}", "{\"num_m\":\"x\"}", "{\"num_m\":1"] {
            l.evals += 1;
            ffi::wirefilter_clear_last_error();
            let ok = ffi::wirefilter_deserialize_json_to_execution_context(&mut ctx, doc.as_ptr(), doc.len());
            if ok {
                run.violation("C20/bad-context-json-accepted", "mirror", "setters", i, json!({"json": doc}));
            }
            expect_error(run, "setters", i, "deserialize_json_to_execution_context", Some(""), json!({"json": doc}));
        }
        // a document that names only SOME fields, read into the populated context
        // through the C entry point and, into an equal context, through the Rust
        // API: both must end up holding the same thing (what the document does not
        // mention stays as it was)
        {
            use serde::de::DeserializeSeed;
            let before = take_string(ffi::wirefilter_serialize_execution_context_to_json(&mut ctx).json);
            let mut mirror = wirefilter::ExecutionContext::<()>::new(scheme);
            let loaded = {
                let mut de = serde_json::Deserializer::from_str(&before);
                (&mut mirror).deserialize(&mut de).map_err(|e| e.to_string())
            };
            if let Err(e) = loaded {
                run.violation("C20/context-json-of-the-c-api-not-readable-by-the-rust-api", "mirror", "setters", i, json!({"json": before.chars().take(400).collect::<String>(), "error": e}));
            } else {
                let vals = gen_ctx(&mut r, &w.env);
                let mut part = serde_json::Map::new();
                for (f, v) in w.env.fields.iter().zip(&vals) {
                    if let (Some(v), true) = (v, r.chance(1, 4)) {
                        part.insert(f.name.clone(), v.to_json());
                    }
                }
                let doc = serde_json::to_string(&serde_json::Value::Object(part)).unwrap();
                ffi::wirefilter_clear_last_error();
                // the buffer is lent for the duration of the call only
                let ok_c = {
                    let mut lent: Vec<u8> = doc.as_bytes().to_vec();
                    let ok = ffi::wirefilter_deserialize_json_to_execution_context(&mut ctx, lent.as_ptr(), lent.len());
                    lent.iter_mut().for_each(|b| *b = b'#');
                    drop(lent);
                    ok
                };
                let ok_r = {
                    let mut de = serde_json::Deserializer::from_str(&doc);
                    (&mut mirror).deserialize(&mut de).is_ok()
                };
                let after_c = take_string(ffi::wirefilter_serialize_execution_context_to_json(&mut ctx).json);
                let after_r = serde_json::to_string(&mirror).unwrap_or_default();
                l.evals += 1;
                if ok_c != ok_r || after_c != after_r {
                    run.violation(
                        "C20/partial-document-into-populated-context/c-api-differs-from-rust-api",
                        "mirror",
                        "setters",
                        i,
                        json!({"document": doc.chars().take(300).collect::<String>(), "accepted_by_c_api": ok_c, "accepted_by_rust_api": ok_r,
                               "context_before": before.chars().take(300).collect::<String>(),
                               "after_c_api": after_c.chars().take(300).collect::<String>(), "after_rust_api": after_r.chars().take(300).collect::<String>()}),
                    );
                } else {
                    l.count("partial_documents_mirrored");
                }
            }
        }
        ffi::wirefilter_free_execution_context(ctx);
        drop(keep);
        run.distinct(hash_str(&format!("s{}", i)));
    });

    // ---- D. last-error belongs to the calling thread, is replaced and cleared
    // ---- the per-field JSON setter against the Rust API on the same text: near-valid
    // scalars (signs, leading zeros, exponents, case variants, surrounding whitespace,
    // non-ASCII digits), alternative encodings and wrong shapes, for every field type.
    // Same accept/reject, same stored value, a last-error message on every refusal.
    const JSON_TEXTS: &[&str] = &[
        "5", "-5", "+5", "+0", "-0", "0", "00", "007", "-01", "+007", " 5", "5 ", "\t5\n", "5x", "5,", "1e3", "1E3", "1e0", "1.0",
        "1.5", ".5", "5.", "0x10", "0b1", "1_000", "9223372036854775807", "9223372036854775808", "-9223372036854775808",
        "-9223372036854775809", "true", "false", "True", "TRUE", "FALSE", " true", "true ", "tru", "truee", "t", "1", "yes", "null",
        "\"5\"", "\"true\"", "\"1.2.3.4\"", "\"::1\"", "\"1.2.3.4 \"", "\" 1.2.3.4\"", "\"01.2.3.4\"", "\"1.2.3\"",
        "\"::ffff:1.2.3.4\"", "\"1.2.3.4/32\"", "1.2.3.4", "\"abc\"", "\"a\\u0000b\"", "\"\\ud800\"", "\"\u{e9}\"", "abc", "'abc'",
        "[97,98]", "[256]", "[-1]", "[1.0]", "[+1]", "[01]", "[]", "{}", "[[\"k\",1]]", "[[\"k\",+1]]", "{\"k\":1}", "{\"k\":01}",
        "{\"k\":1,\"k\":2}", "[1,2,]", "[1 2]", "[true,false]", "[True]", "[[true],[false,true]]", "{\"a\":[1],\"b\":[]}",
        "\u{665}", "\u{ff15}", "", " ", "\u{feff}5", "5\u{0}", "--5", "+-5", "+", "-",
    ];
    let fields_n = worlds[0].env.fields.len() as u64;
    let total = fields_n * JSON_TEXTS.len() as u64;
    run.exhaustive("json-value-mirror", true);
    run.parallel("json-value-mirror", total + run.opts.size(20_000, 600_000), |i, l| {
        l.evals += 1;
        let w = &worlds[0];
        let scheme: &wirefilter::Scheme = &w.scheme;
        let mut r = Rng::derive(seed, "c20-jv", i);
        let (f, text): (&crate::ast::FieldDesc, String) = if i < total {
            (&w.env.fields[(i / JSON_TEXTS.len() as u64) as usize], JSON_TEXTS[(i % JSON_TEXTS.len() as u64) as usize].to_string())
        } else {
            // a valid document of the field's type with one character inserted / deleted / replaced
            let f = &w.env.fields[r.below(w.env.fields.len())];
            let mut chars: Vec<char> = serde_json::to_string(&gen_value(&mut r, &f.ty).to_json()).unwrap().chars().collect();
            let pos = r.below(chars.len() + 1);
            let ins = ['+', '-', '0', ' ', '.', 'e', '"', ',', '1', 'T', '\u{665}'][r.below(11)];
            match r.below(3) {
                0 => chars.insert(pos, ins),
                1 if pos < chars.len() => {
                    chars.remove(pos);
                }
                _ if pos < chars.len() => chars[pos] = ins,
                _ => chars.push(ins),
            }
            (f, chars.into_iter().collect())
        };
        let ty = f.ty.to_engine();
        // Rust API
        let rust: Result<Result<Option<RV>, String>, String> = guard(|| {
            match ty.deserialize_value(&mut serde_json::Deserializer::from_slice(text.as_bytes())) {
                Ok(v) => {
                    let mut ctx = wirefilter::ExecutionContext::<()>::new(scheme);
                    ctx.set_field_value_from_name(&f.name, v.into_owned()).map_err(|e| e.to_string())?;
                    let field = scheme.get_field(&f.name).unwrap();
                    Ok(ctx.get_field_value(field).map(|v| RV::from_lhs(v).expect("deep type")))
                }
                Err(e) => Err(e.to_string()),
            }
        });
        // C API (the buffer is lent for the call only)
        let mut ctx = ffi::wirefilter_create_execution_context(&w.scheme);
        ffi::wirefilter_clear_last_error();
        let c = guard(|| {
            let mut buf = text.as_bytes().to_vec();
            let ok = ffi::wirefilter_add_json_value_to_execution_context(&mut ctx, f.name.as_ptr() as *const _, f.name.len(), buf.as_ptr(), buf.len());
            for b in buf.iter_mut() {
                *b = b'#';
            }
            drop(buf);
            ok
        });
        let detail = |extra: serde_json::Value| json!({"field": f.name, "field_type": f.ty.short(), "json_text": text, "more": extra});
        match (&rust, &c) {
            (Ok(Ok(rv)), Ok(true)) => {
                let field = scheme.get_field(&f.name).unwrap();
                let got = ctx.get_field_value(field).map(|v| RV::from_lhs(v));
                let same = match (&got, rv) {
                    (Some(Ok(a)), Some(b)) => a == b,
                    (None, None) => true,
                    _ => false,
                };
                if !same {
                    run.violation("C20/json-value/stored-value-differs", "mirror", "json-value-mirror", i, detail(json!({"c": format!("{:?}", got), "rust": format!("{:?}", rv)})));
                }
                expect_error(run, "json-value-mirror", i, "add_json_value", None, detail(json!(null)));
                l.count("json_value_accepted_by_both");
            }
            (Ok(Err(_)), Ok(false)) => {
                expect_error(run, "json-value-mirror", i, "add_json_value", Some(""), detail(json!(null)));
                l.count("json_value_refused_by_both");
            }
            (Ok(Ok(_)), Ok(false)) => run.violation("C20/json-value/c-refuses-what-rust-accepts", "mirror", "json-value-mirror", i, detail(json!({"last_error": last_error()}))),
            (Ok(Err(e)), Ok(true)) => run.violation("C20/json-value/c-accepts-what-rust-refuses", "mirror", "json-value-mirror", i, detail(json!({"rust_error": e}))),
            (Err(p), _) | (_, Err(p)) => run.violation(&format!("C20/json-value/panic/{}", first_line(p)), "no-panic", "json-value-mirror", i, detail(json!({"panic": p}))),
        }
        ffi::wirefilter_free_execution_context(ctx);
        run.distinct(hash_str(&format!("{}|{}", f.name, text)));
        if i % 997 == 0 {
            run.sample("json-value-mirror", 4, || json!({"field_type": f.ty.short(), "json_text": text}));
        }
    });

    let n = run.opts.size(1_500, 30_000);
    run.parallel("last-error", n, |i, l| {
        let w = &worlds[0];
        let bad: Vec<String> = (0..4).map(|t| format!("num_m == {}thread{}", t, i)).collect();
        let outs: Vec<Result<(), String>> = std::thread::scope(|s| {
            let hs: Vec<_> = bad
                .iter()
                .enumerate()
                .map(|(t, text)| {
                    s.spawn(move || -> Result<(), String> {
                        let scheme: &wirefilter::Scheme = &w.scheme;
                        if last_error().is_some() {
                            return Err("a fresh thread starts with a last-error message".into());
                        }
                        for round in 0..10 {
                            let text = format!("{} r{}", text, round);
                            let want = scheme.parse(&text).err().map(|e| e.to_string()).ok_or("should fail")?;
                            let c = ffi::wirefilter_parse_filter(&w.scheme, text.as_ptr() as *const _, text.len());
                            if c.status != ffi::Status::Error {
                                return Err("expected an error status".into());
                            }
                            std::thread::yield_now();
                            match last_error() {
                                Some(g) if g == c_text(&want) => {}
                                other => {
                                    return Err(format!(
                                        "thread {} round {}: last error is {:?}, expected {:?}",
                                        t,
                                        round,
                                        other.map(|b| String::from_utf8_lossy(&b).into_owned()),
                                        want
                                    ))
                                }
                            }
                            // a success does not touch it; clear empties it
                            let ok = "tru_m";
                            let c2 = ffi::wirefilter_parse_filter(&w.scheme, ok.as_ptr() as *const _, ok.len());
                            if let Some(a) = c2.ast {
                                ffi::wirefilter_free_parsed_filter(a);
                            }
                            if round % 2 == 0 {
                                ffi::wirefilter_clear_last_error();
                                if last_error().is_some() {
                                    return Err("clear_last_error left a message".into());
                                }
                            }
                        }
                        Ok(())
                    })
                })
                .collect();
            hs.into_iter().map(|h| h.join().unwrap_or_else(|_| Err("thread panicked".into()))).collect()
        });
        l.evals += 40;
        for o in outs {
            if let Err(e) = o {
                run.violation(
                    &format!("C20/last-error-discipline/{}", e.chars().filter(|c| !c.is_ascii_digit()).take(50).collect::<String>()),
                    "last-error",
                    "last-error",
                    i,
                    json!({"problem": e}),
                );
            }
        }
        run.distinct(i ^ 0xeeee);
    });

    // ---- D'. the message of a failing call does not depend on what failed before
    // it: every kind of failure (of every entry point, including the
    // not-UTF-8 ones) is first observed alone, right after a clear, and must
    // then leave exactly the same message wherever it occurs in a sequence of
    // failing and succeeding calls with no clearing in between
    let n = run.opts.size(3_000, 60_000);
    run.parallel("error-sequences", n, |i, l| {
        let mut r = Rng::derive(seed, "c20-es", i);
        let w = &worlds[r.below(worlds.len())];
        let good = "tru_m";
        let parsed = ffi::wirefilter_parse_filter(&w.scheme, good.as_ptr() as *const _, good.len());
        let Some(ast) = parsed.ast else {
            run.inconclusive("C20 error-sequences: `tru_m` does not parse");
            return;
        };
        let mut ctx = ffi::wirefilter_create_execution_context(&w.scheme);
        let mut builder = ffi::wirefilter_create_scheme_builder();
        let fname = b"dup.field";
        let _ = ffi::wirefilter_add_type_field_to_scheme(&mut builder, fname.as_ptr() as *const _, fname.len(), ffi::wirefilter_create_primitive_type(ffi::CPrimitiveType::Int));
        let _ = ffi::wirefilter_add_never_list_to_scheme(&mut builder, ffi::wirefilter_create_primitive_type(ffi::CPrimitiveType::Int));
        let bad_utf8: &[u8] = b"num_m == \xff\xfe 1";
        let bad_name: &[u8] = b"nu\xc3m";
        let texts = ["num_m == ", "nosuch == 1", "str_m matches \"(\"", "num_m in {1 2", "tru_m and and", "ipa_m == 1.2.3.4.5", "num_m == 1\0"];
        const KINDS: usize = 16;
        // returns true when the call failed (as every one of them must)
        let fail = |k: usize, ctx: &mut ffi::ExecutionContext<'_>, builder: &mut ffi::SchemeBuilder| -> bool {
            match k {
                0..=6 => {
                    let t = texts[k];
                    let c = ffi::wirefilter_parse_filter(&w.scheme, t.as_ptr() as *const _, t.len());
                    if let Some(a) = c.ast {
                        ffi::wirefilter_free_parsed_filter(a);
                        return false;
                    }
                    c.status == ffi::Status::Error
                }
                7 => {
                    let c = ffi::wirefilter_parse_filter(&w.scheme, bad_utf8.as_ptr() as *const _, bad_utf8.len());
                    c.ast.is_none() && c.status == ffi::Status::Error
                }
                8 => !ffi::wirefilter_add_int_value_to_execution_context(ctx, bad_name.as_ptr() as *const _, bad_name.len(), 1),
                9 => {
                    let n = b"nosuch.field";
                    !ffi::wirefilter_add_bool_value_to_execution_context(ctx, n.as_ptr() as *const _, n.len(), true)
                }
                10 => {
                    let n = b"str_m";
                    !ffi::wirefilter_add_int_value_to_execution_context(ctx, n.as_ptr() as *const _, n.len(), 7)
                }
                11 => {
                    let (n, js) = (b"num_m", b"{\"a\":");
                    !ffi::wirefilter_add_json_value_to_execution_context(ctx, n.as_ptr() as *const _, n.len(), js.as_ptr(), js.len())
                }
                12 => {
                    let js = b"{\"nosuch\":1}";
                    !ffi::wirefilter_deserialize_json_to_execution_context(ctx, js.as_ptr(), js.len())
                }
                13 => ffi::wirefilter_filter_uses(&ast, bad_name.as_ptr() as *const _, bad_name.len()).status == ffi::Status::Error,
                14 => {
                    let n = b"nosuch.field";
                    ffi::wirefilter_filter_uses_list(&ast, n.as_ptr() as *const _, n.len()).status == ffi::Status::Error
                }
                _ => {
                    if r_bool_static(i) {
                        !ffi::wirefilter_add_type_field_to_scheme(builder, fname.as_ptr() as *const _, fname.len(), ffi::wirefilter_create_primitive_type(ffi::CPrimitiveType::Bytes))
                    } else {
                        !ffi::wirefilter_add_type_field_to_scheme(builder, bad_name.as_ptr() as *const _, bad_name.len(), ffi::wirefilter_create_primitive_type(ffi::CPrimitiveType::Bytes))
                    }
                }
            }
        };
        // each failure alone
        let mut alone: Vec<Option<Vec<u8>>> = Vec::new();
        for k in 0..KINDS {
            ffi::wirefilter_clear_last_error();
            let failed = fail(k, &mut ctx, &mut builder);
            let msg = last_error();
            l.evals += 1;
            if !failed || msg.as_ref().map_or(true, |m| m.is_empty()) {
                run.violation(
                    &format!("C20/error-sequences/kind{}-{}", k, if failed { "failure-without-message" } else { "call-did-not-fail" }),
                    "last-error",
                    "error-sequences",
                    i,
                    json!({"kind": k, "failed": failed, "message": msg.as_ref().map(|m| String::from_utf8_lossy(m).into_owned())}),
                );
            }
            alone.push(msg);
        }
        // sequences without clearing
        for _ in 0..6 {
            ffi::wirefilter_clear_last_error();
            let len = r.range(2, 7);
            let mut trace: Vec<String> = Vec::new();
            let mut current: Option<Vec<u8>> = None;
            for _ in 0..len {
                l.evals += 1;
                if r.chance(1, 4) {
                    // a success leaves the message alone
                    let c = ffi::wirefilter_parse_filter(&w.scheme, good.as_ptr() as *const _, good.len());
                    if let Some(a) = c.ast {
                        ffi::wirefilter_free_parsed_filter(a);
                    }
                    let n = b"num_m";
                    let _ = ffi::wirefilter_add_int_value_to_execution_context(&mut ctx, n.as_ptr() as *const _, n.len(), 3);
                    let _ = ffi::wirefilter_filter_uses(&ast, n.as_ptr() as *const _, n.len());
                    trace.push("successes".into());
                } else {
                    let k = r.below(KINDS);
                    let _ = fail(k, &mut ctx, &mut builder);
                    current = alone[k].clone();
                    trace.push(format!("fail{}", k));
                }
                let got = last_error();
                if got != current {
                    let last = trace.last().cloned().unwrap_or_default();
                    run.violation(
                        &format!("C20/error-sequences/message-depends-on-history/after-{}", last.trim_end_matches(char::is_numeric)),
                        "last-error",
                        "error-sequences",
                        i,
                        json!({"calls": trace, "expected": current.as_ref().map(|m| String::from_utf8_lossy(m).into_owned()),
                               "got": got.as_ref().map(|m| String::from_utf8_lossy(m).into_owned())}),
                    );
                    break;
                }
            }
        }
        ffi::wirefilter_free_parsed_filter(ast);
        ffi::wirefilter_free_execution_context(ctx);
        ffi::wirefilter_free_scheme_builder(builder);
        ffi::wirefilter_clear_last_error();
        run.distinct(i ^ 0x5e95);
    });

    // ---- E'. many threads panic inside match at once: every thread's last
    // error names its own panic (fresh threads each round; a destructor that
    // yields while the panic unwinds leaves room for the other threads' hooks)
    if run.opts.wants("panic-storm") {
        let threads: usize = if run.opts.variant == "miri" { 3 } else { 96 };
        let rounds = match run.opts.variant.as_str() {
            "miri" => 1,
            "tsan" | "asan" | "dbg" => if run.opts.thorough() { 10 } else { 2 },
            _ => if run.opts.thorough() { 100 } else { 6 },
        };
        let per_thread = 10u64;
        let w = &worlds[0];
        let text = "kaboom(str_m) == \"a\"";
        let mut wrong = 0u64;
        let mut first: Option<serde_json::Value> = None;
        let mut observed = 0u64;
        for round in 0..rounds {
            let barrier = std::sync::Barrier::new(threads);
            let outs: Vec<Result<Vec<String>, String>> = std::thread::scope(|s| {
                let hs: Vec<_> = (0..threads)
                    .map(|tid| {
                        let barrier = &barrier;
                        s.spawn(move || -> Result<Vec<String>, String> {
                            ffi::panic::wirefilter_enable_panic_catcher();
                            let mut r = Rng::derive(seed, "c20-storm", (round * 1000 + tid) as u64);
                            let vals = gen_ctx(&mut r, &w.env);
                            let mut keep: Vec<Box<[u8]>> = Vec::new();
                            let mut cctx = ffi::wirefilter_create_execution_context(&w.scheme);
                            set_values(w, &mut cctx, &vals, &mut r, &mut keep)?;
                            let p = ffi::wirefilter_parse_filter(&w.scheme, text.as_ptr() as *const _, text.len());
                            let ast = p.ast.ok_or("parse failed")?;
                            let f = ffi::wirefilter_compile_filter(ast).filter.ok_or("compile failed")?;
                            let mut bad = Vec::new();
                            barrier.wait();
                            for k in 0..per_thread {
                                let tag = ((round as u64) << 40) | ((tid as u64) << 20) | k;
                                set_boom_tag(tag);
                                set_boom(3);
                                let m = ffi::wirefilter_match(&f, &cctx);
                                set_boom(0);
                                let msg = last_error().map(|b| String::from_utf8_lossy(&b).into_owned()).unwrap_or_default();
                                let own = format!("kaboom-in-execute#{}#", tag);
                                if m.status != ffi::Status::Panic || !msg.contains(&own) || msg.matches("kaboom-in-").count() != 1 {
                                    bad.push(format!("status {:?}, own message {:?}, last error {:?}", m.status, own, msg.chars().take(200).collect::<String>()));
                                }
                            }
                            ffi::wirefilter_free_compiled_filter(f);
                            ffi::wirefilter_free_execution_context(cctx);
                            drop(keep);
                            ffi::wirefilter_clear_last_error();
                            Ok(bad)
                        })
                    })
                    .collect();
                hs.into_iter().map(|h| h.join().unwrap_or_else(|_| Err("thread died: a panic unwound into the caller".into()))).collect()
            });
            for o in outs {
                observed += per_thread;
                match o {
                    Ok(bad) => {
                        for b in bad {
                            wrong += 1;
                            first.get_or_insert_with(|| json!({"problem": b}));
                        }
                    }
                    Err(e) => {
                        wrong += 1;
                        first.get_or_insert_with(|| json!({"problem": e}));
                    }
                }
            }
            run.distinct(hash_str(&format!("storm|{}", round)));
        }
        run.evaluations.fetch_add(observed, std::sync::atomic::Ordering::Relaxed);
        run.counter("panic_storm_matches", observed);
        run.note("panic_storm", json!({"threads_per_round": threads, "rounds": rounds, "panics_per_thread": per_thread}));
        if wrong > 0 {
            run.violation(
                "C20/panic-storm/last-error-is-not-this-threads-panic",
                "last-error",
                "panic-storm",
                0,
                json!({"threads": threads, "rounds": rounds, "wrong_results": wrong, "first": first}),
            );
        }
    }

    // ---- E. panics inside parse / compile / match become a panic status
    let n = run.opts.size(1_000, 20_000);
    run.parallel("panics", n, |i, l| {
        ffi::panic::wirefilter_enable_panic_catcher();
        let w = &worlds[(i % 2) as usize];
        let stage = 1 + (i % 3) as u8;
        let text = "kaboom(str_m) == \"a\"";
        let res = guard(|| -> Result<(), String> {
            let mut r = Rng::derive(seed, "c20-panic", i);
            let vals = gen_ctx(&mut r, &w.env);
            let mut keep: Vec<Box<[u8]>> = Vec::new();
            let mut cctx = ffi::wirefilter_create_execution_context(&w.scheme);
            set_values(w, &mut cctx, &vals, &mut r, &mut keep)?;
            ffi::wirefilter_clear_last_error();
            set_boom(if stage == 1 { 1 } else { 0 });
            let p = ffi::wirefilter_parse_filter(&w.scheme, text.as_ptr() as *const _, text.len());
            set_boom(0);
            if stage == 1 {
                if p.status != ffi::Status::Panic || p.ast.is_some() {
                    return Err(format!("panic in parse reported as {:?}", p.status));
                }
                match last_error() {
                    Some(m) if String::from_utf8_lossy(&m).contains("kaboom-in-check_param") => {}
                    other => return Err(format!("panic message missing from last-error: {:?}", other.map(|b| String::from_utf8_lossy(&b).into_owned()))),
                }
            } else {
                let ast = p.ast.ok_or("parse failed")?;
                set_boom(if stage == 2 { 2 } else { 0 });
                ffi::wirefilter_clear_last_error();
                let c = ffi::wirefilter_compile_filter(ast);
                set_boom(0);
                if stage == 2 {
                    if c.status != ffi::Status::Panic || c.filter.is_some() {
                        return Err(format!("panic in compile reported as {:?}", c.status));
                    }
                    match last_error() {
                        Some(m) if String::from_utf8_lossy(&m).contains("kaboom-in-compile") => {}
                        other => return Err(format!("panic message missing from last-error: {:?}", other.is_some())),
                    }
                } else {
                    let f = c.filter.ok_or("compile failed")?;
                    set_boom(3);
                    ffi::wirefilter_clear_last_error();
                    let m = ffi::wirefilter_match(&f, &cctx);
                    set_boom(0);
                    if m.status != ffi::Status::Panic || m.matched {
                        return Err(format!("panic in match reported as {:?}", m.status));
                    }
                    match last_error() {
                        Some(m) if String::from_utf8_lossy(&m).contains("kaboom-in-execute") => {}
                        other => return Err(format!("panic message missing from last-error: {:?}", other.is_some())),
                    }
                    // the next call on the same thread works
                    ffi::wirefilter_clear_last_error();
                    let m2 = ffi::wirefilter_match(&f, &cctx);
                    if m2.status != ffi::Status::Success || last_error().is_some() {
                        return Err("the call after a caught panic did not succeed cleanly".into());
                    }
                    ffi::wirefilter_free_compiled_filter(f);
                }
            }
            // after a caught panic the thread still parses
            let ok = "tru_m and num_m == 1";
            let p2 = ffi::wirefilter_parse_filter(&w.scheme, ok.as_ptr() as *const _, ok.len());
            if p2.status != ffi::Status::Success {
                return Err("parse after a caught panic failed".into());
            }
            if let Some(a) = p2.ast {
                ffi::wirefilter_free_parsed_filter(a);
            }
            ffi::wirefilter_free_execution_context(cctx);
            drop(keep);
            Ok(())
        });
        l.evals += 1;
        match res {
            Ok(Ok(())) => l.count("panics_reported_as_status"),
            Ok(Err(e)) => run.violation(
                &format!("C20/panic-status/stage{}/{}", stage, e.chars().take(50).collect::<String>()),
                "panic-status",
                "panics",
                i,
                json!({"stage": (["", "parse", "compile", "match"][stage as usize]), "problem": e}),
            ),
            Err(p) => run.violation(
                &format!("C20/panic-unwound-into-caller/stage{}", stage),
                "no-unwind",
                "panics",
                i,
                json!({"panic": p}),
            ),
        }
        set_boom(0);
        run.distinct(i ^ 0xb000);
    });
    let _ = ListState::default();
}
