pub mod common;
pub mod c01;

use crate::report::Run;

pub fn dispatch(run: &Run) -> bool {
    match run.opts.prop.as_str() {
        "C01" => c01::run(run),
        _ => return false,
    }
    true
}
