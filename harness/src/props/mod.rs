pub mod common;
pub mod c01;
pub mod c02;
pub mod c03;

use crate::report::Run;

pub fn dispatch(run: &Run) -> bool {
    match run.opts.prop.as_str() {
        "C01" => c01::run(run),
        "C02" => c02::run(run),
        "C03" => c03::run(run),
        _ => return false,
    }
    true
}
