pub mod common;
pub mod c01;
pub mod c02;
pub mod c03;
pub mod c04;
pub mod c05;
pub mod c06;
pub mod c07;
pub mod c08;
pub mod c09;
pub mod c10;
pub mod c11;
pub mod c12;
pub mod c13;
pub mod c14;
pub mod c15;
pub mod c16;
pub mod c17;
pub mod c18;
pub mod c19;
pub mod c20;

use crate::report::Run;

pub fn dispatch(run: &Run) -> bool {
    // coverage-guided stages: seed corpus generation and replay of kept fuzzer inputs
    if let Some(t) = run.opts.extra.get("fuzz-target") {
        if let Some(d) = run.opts.extra.get("fuzz-corpus") {
            crate::fuzz::write_corpus(run, t, d);
            return true;
        }
        if let Some(f) = run.opts.extra.get("fuzz-file") {
            crate::fuzz::replay(run, t, f);
            return true;
        }
    }
    match run.opts.prop.as_str() {
        "C01" => c01::run(run),
        "C02" => c02::run(run),
        "C03" => c03::run(run),
        "C04" => c04::run(run),
        "C05" => c05::run(run),
        "C06" => c06::run(run),
        "C07" => c07::run(run),
        "C08" => c08::run(run),
        "C09" => c09::run(run),
        "C10" => c10::run(run),
        "C11" => c11::run(run),
        "C12" => c12::run(run),
        "C13" => c13::run(run),
        "C14" => c14::run(run),
        "C15" => c15::run(run),
        "C16" => c16::run(run),
        "C17" => c17::run(run),
        "C18" => c18::run(run),
        "C19" => c19::run(run),
        "C20" => c20::run(run),
        _ => return false,
    }
    true
}
