//! C01 — scalar comparisons and boolean logic.

use super::common::*;
use crate::ast::*;
use crate::gen::*;
use crate::printer::{print_filter, Printer};
use crate::prng::Rng;
use crate::refsem::ListState;
use crate::report::{hash_str, Run};
use crate::rv::{RType, RV};
use serde_json::json;
use std::net::IpAddr;

fn int_boundary() -> Vec<i64> {
    vec![
        i64::MIN,
        i64::MIN + 1,
        -1,
        0,
        1,
        2,
        255,
        i64::MAX - 1,
        i64::MAX,
    ]
}

fn bytes_boundary() -> Vec<Vec<u8>> {
    vec![
        b"".to_vec(),
        b"a".to_vec(),
        b"ab".to_vec(),
        b"abc".to_vec(),
        b"b".to_vec(),
        b"A".to_vec(),
        b"\x00".to_vec(),
        b"\xff".to_vec(),
        b"a\xff".to_vec(),
        b"\xc3\xa9".to_vec(),
    ]
}

fn ip_boundary() -> Vec<IpAddr> {
    vec![
        "0.0.0.0".parse().unwrap(),
        "0.0.0.1".parse().unwrap(),
        "10.0.0.1".parse().unwrap(),
        "255.255.255.255".parse().unwrap(),
        "::".parse().unwrap(),
        "::1".parse().unwrap(),
        "::ffff:10.0.0.1".parse().unwrap(),
        "::a00:1".parse().unwrap(),
        "2001:db8::1".parse().unwrap(),
        "ffff:ffff:ffff:ffff:ffff:ffff:ffff:ffff".parse().unwrap(),
    ]
}

const ORD_ALIASES: [(OrdOp, [&str; 2]); 6] = [
    (OrdOp::Eq, ["eq", "=="]),
    (OrdOp::Ne, ["ne", "!="]),
    (OrdOp::Ge, ["ge", ">="]),
    (OrdOp::Le, ["le", "<="]),
    (OrdOp::Gt, ["gt", ">"]),
    (OrdOp::Lt, ["lt", "<"]),
];

struct MatrixCase {
    nil_ne: bool,
    field: usize,
    value: Option<RV>,
    op: CmpOp,
    text: String,
}

fn matrix_cases(envs: &[Eng; 2]) -> Vec<MatrixCase> {
    let env = &envs[0].env;
    let mut out = Vec::new();
    let mut p = Printer::canonical(env);
    let mut lit_text = |l: &Lit| -> String {
        p.out.clear();
        p.lit(l);
        p.out.clone()
    };
    for (tname, values) in [
        (
            "num",
            int_boundary().into_iter().map(RV::Int).collect::<Vec<_>>(),
        ),
        (
            "str",
            bytes_boundary().into_iter().map(RV::Bytes).collect(),
        ),
        ("ipa", ip_boundary().into_iter().map(RV::Ip).collect()),
    ] {
        let fm = env.field(&format!("{}_m", tname)).unwrap();
        let fo = env.field(&format!("{}_o", tname)).unwrap();
        for rhs in &values {
            let lit = match rhs {
                RV::Int(i) => Lit::Int(*i),
                RV::Bytes(b) => Lit::Bytes(BytesLit::quoted(b.clone())),
                RV::Ip(a) => Lit::Ip(*a),
                _ => unreachable!(),
            };
            let lt = lit_text(&lit);
            let mut ops: Vec<(CmpOp, Vec<String>)> = ORD_ALIASES
                .iter()
                .map(|(o, al)| {
                    (
                        CmpOp::Ord(*o, lit.clone()),
                        al.iter().map(|a| format!("{} {}", a, lt)).collect(),
                    )
                })
                .collect();
            if let RV::Int(i) = rhs {
                ops.push((
                    CmpOp::BitAnd(*i),
                    vec![format!("& {}", lt), format!("bitwise_and {}", lt)],
                ));
            }
            for (op, texts) in ops {
                for text in texts {
                    for nil_ne in [true, false] {
                        // optional & absent
                        out.push(MatrixCase {
                            nil_ne,
                            field: fo,
                            value: None,
                            op: op.clone(),
                            text: format!("{} {}", env.fields[fo].name, text),
                        });
                        for lhs in &values {
                            for f in [fm, fo] {
                                out.push(MatrixCase {
                                    nil_ne,
                                    field: f,
                                    value: Some(lhs.clone()),
                                    op: op.clone(),
                                    text: format!("{} {}", env.fields[f].name, text),
                                });
                            }
                        }
                    }
                }
            }
        }
    }
    // bare booleans
    for nil_ne in [true, false] {
        for (f, vals) in [
            (env.field("tru_m").unwrap(), vec![Some(true), Some(false)]),
            (
                env.field("tru_o").unwrap(),
                vec![Some(true), Some(false), None],
            ),
        ] {
            for v in vals {
                for neg in ["", "not ", "!"] {
                    out.push(MatrixCase {
                        nil_ne,
                        field: f,
                        value: v.map(RV::Bool),
                        op: CmpOp::IsTrue,
                        text: format!("{}{}", neg, env.fields[f].name),
                    });
                }
            }
        }
    }
    out
}

fn base_ctx(env: &Env) -> Ctx {
    // every mandatory field set to a fixed value, optional ones absent
    env.fields
        .iter()
        .map(|f| {
            if f.optional {
                None
            } else {
                Some(match &f.ty {
                    RType::Int => RV::Int(0),
                    RType::Bytes => RV::Bytes(vec![]),
                    RType::Ip => RV::Ip("0.0.0.0".parse().unwrap()),
                    RType::Bool => RV::Bool(false),
                    t => gen_value(&mut Rng::new(1), t),
                })
            }
        })
        .collect()
}

pub fn run(run: &Run) {
    let envs = [Eng::new(scalar_env(true)), Eng::new(scalar_env(false))];
    let seed = run.opts.seed;
    let no_lists = ListState::default();

    // ---- family 1: the complete operator x boundary-pair matrix
    let cases = matrix_cases(&envs);
    run.note("matrix_cases", json!(cases.len()));
    run.exhaustive("matrix", true);
    run.parallel("matrix", cases.len() as u64, |i, l| {
        let c = &cases[i as usize];
        let eng = &envs[if c.nil_ne { 0 } else { 1 }];
        let mut vals = base_ctx(&eng.env);
        vals[c.field] = c.value.clone();
        let negs = if c.text.starts_with("not ") || c.text.starts_with('!') {
            1
        } else {
            0
        };
        let mut expr = Expr::Cmp(Path::field(c.field), c.op.clone());
        if negs == 1 {
            expr = Expr::not(expr);
        }
        let bad = check_filter(
            run,
            l,
            "C01",
            "matrix",
            i,
            eng,
            &expr,
            &c.text,
            &[(vals, no_lists.clone())],
        );
        let _ = bad;
        run.distinct(hash_str(&format!(
            "m|{}|{}|{:?}",
            c.nil_ne, c.text, c.value
        )));
        if i % 2711 == 0 {
            run.sample("matrix", 4, || {
                json!({"filter": c.text, "nil_ne": c.nil_ne, "lhs": c.value.as_ref().map(|v| v.show())})
            });
        }
    });

    // ---- family 2: all 4-operator chains over 5 boolean operands
    let eng = &envs[0];
    let bool_fields: Vec<usize> = eng
        .env
        .fields
        .iter()
        .enumerate()
        .filter(|(_, f)| f.ty == RType::Bool)
        .map(|(i, _)| i)
        .collect();
    assert!(bool_fields.len() >= 5);
    let nshapes = 81u64 * 32;
    run.exhaustive("chains", true);
    run.parallel("chains", nshapes, |i, l| {
        let mut ops = Vec::new();
        let mut x = i / 32;
        for _ in 0..4 {
            ops.push(LOG_OPS[(x % 3) as usize]);
            x /= 3;
        }
        let negmask = i % 32;
        let operands: Vec<Expr> = (0..5)
            .map(|k| {
                let c = Expr::Cmp(Path::field(bool_fields[k]), CmpOp::IsTrue);
                if negmask >> k & 1 == 1 {
                    Expr::not(c)
                } else {
                    c
                }
            })
            .collect();
        // flat text with a per-shape mix of aliases
        let mut r = Rng::derive(seed, "c01-chain-alias", i);
        let mut text = String::new();
        for k in 0..5 {
            if k > 0 {
                let (w, s) = match ops[k - 1] {
                    LogOp::And => ("and", "&&"),
                    LogOp::Or => ("or", "||"),
                    LogOp::Xor => ("xor", "^^"),
                };
                text.push(' ');
                text.push_str(if r.bool() { w } else { s });
                text.push(' ');
            }
            if negmask >> k & 1 == 1 {
                text.push_str(if r.bool() { "not " } else { "!" });
            }
            text.push_str(&eng.env.fields[bool_fields[k]].name);
        }
        // the documented meaning: not > and > xor > or, each left-associative
        let tree = climb(&operands, &ops);
        let mut ctxs = Vec::new();
        for m in 0..32u32 {
            let mut vals = base_ctx(&eng.env);
            for k in 0..5 {
                vals[bool_fields[k]] = Some(RV::Bool(m >> k & 1 == 1));
            }
            ctxs.push((vals, ListState::default()));
        }
        check_filter(run, l, "C01", "chains", i, eng, &tree, &text, &ctxs);
        run.distinct(hash_str(&format!("c|{}", i)));
        if i % 601 == 0 {
            run.sample("chains", 3, || json!({"filter": text}));
        }
    });

    // ---- family 3: random programs
    let n = run.opts.size(600_000, 20_000_000);
    run.parallel("random", n, |i, l| {
        let mut r = Rng::derive(seed, "c01-random", i);
        let eng = &envs[r.below(2)];
        let mut g = FilterGen::new(&eng.env, GenCfg::scalar_only(), Rng::derive(seed, "c01-gen", i));
        let expr = g.filter();
        let text = print_filter(&eng.env, &expr, Some(Rng::derive(seed, "c01-print", i)));
        let ctxs: Vec<(Ctx, ListState)> = (0..8)
            .map(|_| (gen_ctx(&mut r, &eng.env), ListState::default()))
            .collect();
        check_filter(run, l, "C01", "random", i, eng, &expr, &text, &ctxs);
        let ops = count_logical(&expr);
        if ops >= 1 {
            let canon = print_filter(&eng.env, &expr, None);
            for (k, (vals, _)) in ctxs.iter().enumerate() {
                let _ = k;
                run.distinct(hash_str(&format!("r|{}|{}|{:?}", eng.env.nil_ne, canon, vals)));
            }
            l.count("random_with_logical_op");
        }
        if i % 4001 == 0 {
            run.sample("random", 4, || json!({"filter": text, "nil_ne": eng.env.nil_ne}));
        }
    });
}

pub fn count_logical(e: &Expr) -> usize {
    match e {
        Expr::Cmp(..) => 0,
        Expr::Not(e) => 1 + count_logical(e),
        Expr::Paren(e) => count_logical(e),
        Expr::Comb(_, items) => items.len() - 1 + items.iter().map(count_logical).sum::<usize>(),
        Expr::Quant(_, a) => match a {
            QArg::Path(_) => 0,
            QArg::Logical(e) => count_logical(e),
        },
    }
}

/// Build the tree the documented precedence assigns to a flat chain.
pub fn climb(operands: &[Expr], ops: &[LogOp]) -> Expr {
    fn split(operands: &[Expr], ops: &[LogOp], level: usize) -> Expr {
        if operands.len() == 1 {
            return operands[0].clone();
        }
        if level >= 3 {
            unreachable!();
        }
        let op = LOG_OPS[level]; // Or, Xor, And: loosest first
        let mut groups: Vec<Expr> = Vec::new();
        let mut start = 0;
        for (k, o) in ops.iter().enumerate() {
            if *o == op {
                groups.push(split(&operands[start..=k], &ops[start..k], level + 1));
                start = k + 1;
            }
        }
        groups.push(split(&operands[start..], &ops[start..], level + 1));
        if groups.len() == 1 {
            groups.pop().unwrap()
        } else {
            Expr::Comb(op, groups)
        }
    }
    split(operands, ops, 0)
}
