//! C13 — the configurable nesting limit bounds every accepted filter.

use super::common::*;
use crate::ast::*;
use crate::gen::*;
use crate::printer::{print_filter, print_value_expr};
use crate::prng::Rng;
use crate::refsem::{nesting, nesting_value, ListState};
use crate::report::{guard, hash_str, Local, Run};
use serde_json::json;
use wirefilter::verif::take_max_nesting;

#[derive(Clone, Copy, Debug, PartialEq, Eq)]
pub enum K {
    Paren,
    Not,
    Quant,
    CallB,
    CallB2,
    CallA,
    Lift,
    /// `leaf and X`: X as a later operand of a chain (adds no nesting itself)
    ChainR,
    /// `X or leaf`: X as the first operand of a chain
    ChainL,
}
pub const KS: [K; 9] = [
    K::Paren,
    K::Not,
    K::Quant,
    K::CallB,
    K::CallB2,
    K::CallA,
    K::Lift,
    K::ChainR,
    K::ChainL,
];

struct Names {
    num: usize,
    lnum: usize,
    neg: usize,
    nboth: usize,
    idlt: usize,
    lift: usize,
    tru: usize,
}

fn names(env: &Env) -> Names {
    Names {
        num: env.field("num_o").unwrap(),
        lnum: env.field("l_num_o").unwrap(),
        neg: env.func("neg1").unwrap(),
        nboth: env.func("nboth1").unwrap(),
        idlt: env.func("idlt1").unwrap(),
        lift: env.func("lift1").unwrap(),
        tru: env.field("tru_m").unwrap(),
    }
}

fn as_arg(inner: Expr) -> Arg {
    match inner {
        Expr::Cmp(p, CmpOp::IsTrue) => Arg::Path(p),
        e @ Expr::Comb(..) => Arg::Logical(Expr::paren(e)),
        e => Arg::Logical(e),
    }
}

/// Wrap `inner` (a boolean array iff `arr`) in construct `k`.
fn wrap(nm: &Names, k: K, inner: Expr, arr: bool) -> Option<(Expr, bool)> {
    let call = |f: usize, args: Vec<Arg>| {
        Expr::Cmp(
            Path {
                base: Base::Call(Box::new(Call { func: f, args })),
                idx: vec![],
            },
            CmpOp::IsTrue,
        )
    };
    Some(match k {
        K::Paren => (Expr::paren(inner), arr),
        K::Not => (Expr::not(inner).normalize(), arr),
        K::Quant => {
            if !arr {
                return None;
            }
            let arg = match inner {
                Expr::Cmp(p, CmpOp::IsTrue) => QArg::Path(p),
                e @ Expr::Comb(..) => QArg::Logical(Box::new(Expr::paren(e))),
                e => QArg::Logical(Box::new(e)),
            };
            (Expr::Quant(QOp::Any, arg), false)
        }
        K::CallB => {
            if arr {
                return None;
            }
            (call(nm.neg, vec![as_arg(inner)]), false)
        }
        K::CallB2 => {
            if arr {
                return None;
            }
            (
                call(nm.nboth, vec![Arg::Path(Path::field(nm.tru)), as_arg(inner)]),
                false,
            )
        }
        K::CallA => {
            if !arr {
                return None;
            }
            (call(nm.idlt, vec![as_arg(inner)]), true)
        }
        K::Lift => {
            if arr {
                return None;
            }
            (call(nm.lift, vec![as_arg(inner)]), true)
        }
        K::ChainR | K::ChainL => {
            let leaf = if arr {
                Expr::Cmp(
                    Path {
                        base: Base::Field(nm.lnum),
                        idx: vec![Idx::Each],
                    },
                    CmpOp::Ord(OrdOp::Ne, Lit::Int(2)),
                )
            } else {
                Expr::Cmp(Path::field(nm.num), CmpOp::Ord(OrdOp::Ne, Lit::Int(2)))
            };
            if k == K::ChainR {
                (Expr::Comb(LogOp::And, vec![leaf, inner]), arr)
            } else {
                (Expr::Comb(LogOp::Or, vec![inner, leaf]), arr)
            }
        }
    })
}

fn leaves(env: &Env) -> Vec<(Expr, bool)> {
    let f = |n: &str| env.field(n).unwrap();
    vec![
        (Expr::Cmp(Path::field(f("tru_m")), CmpOp::IsTrue), false),
        (
            Expr::Cmp(Path::field(f("num_m")), CmpOp::Ord(OrdOp::Eq, Lit::Int(1))),
            false,
        ),
        (
            Expr::Cmp(
                Path {
                    base: Base::Field(f("l_num_m")),
                    idx: vec![Idx::Each],
                },
                CmpOp::Ord(OrdOp::Eq, Lit::Int(1)),
            ),
            true,
        ),
        (Expr::Cmp(Path::field(f("l_tru_m")), CmpOp::IsTrue), true),
        // brackets INSIDE literals are not nesting (9 open, 2 closed: a textual count
        // would exceed every enumerated limit)
        (
            Expr::Cmp(
                Path::field(f("str_m")),
                CmpOp::Ord(OrdOp::Ne, Lit::Bytes(BytesLit::quoted(b"((((f(x) ((((".to_vec()))),
            ),
            false,
        ),
        (
            Expr::Cmp(
                Path::field(f("str_m")),
                CmpOp::Matches(RegexLit { pattern: "(((((((((a)|(b))+))))))) \\(".to_string(), raw: None }),
            ),
            false,
        ),
        (
            Expr::Cmp(
                Path {
                    base: Base::Field(f("l_str_m")),
                    idx: vec![Idx::Each],
                },
                CmpOp::Contains(BytesLit::quoted(b")))(((((((((".to_vec())),
            ),
            true,
        ),
        // a call with an EMPTY argument list is an argument list all the same
        (
            Expr::Cmp(
                Path {
                    base: Base::Call(Box::new(Call {
                        func: env.func("zero1").unwrap(),
                        args: vec![],
                    })),
                    idx: vec![],
                },
                CmpOp::Ord(OrdOp::Eq, Lit::Int(7)),
            ),
            false,
        ),
    ]
}

/// Every sequence of constructs (applied inside-out to every leaf) up to
/// `depth`, keeping the ones that end as a plain boolean.
fn enumerate(env: &Env, depth: usize) -> Vec<Expr> {
    let nm = names(env);
    let mut out = Vec::new();
    let mut frontier: Vec<(Expr, bool)> = leaves(env);
    for (e, arr) in &frontier {
        if !arr {
            out.push(e.clone());
        }
    }
    for _ in 0..depth {
        let mut next = Vec::new();
        for (e, arr) in &frontier {
            for k in KS {
                if let Some((w, a)) = wrap(&nm, k, e.clone(), *arr) {
                    if !a {
                        out.push(w.clone());
                    }
                    next.push((w, a));
                }
            }
        }
        frontier = next;
    }
    out
}

fn placements(env: &Env, x: &Expr) -> Vec<Expr> {
    let t = |n: &str| Expr::Cmp(Path::field(env.field(n).unwrap()), CmpOp::IsTrue);
    vec![
        x.clone(),
        Expr::Comb(LogOp::And, vec![t("tru_m"), x.clone()]),
        Expr::Comb(
            LogOp::Or,
            vec![
                Expr::Comb(LogOp::And, vec![t("tru2_m"), x.clone()]),
                t("tru4_m"),
            ],
        ),
    ]
}

fn limit_error(rendered: &str, d: u16) -> bool {
    rendered.contains(&format!("maximum nesting depth exceeded (limit: {})", d))
}

#[allow(clippy::too_many_arguments)]
fn check_limit(run: &Run, l: &mut Local, fam: &str, i: u64, eng: &Eng, expr: &Expr, text: &str, d: Option<u16>) {
    let n = nesting(expr);
    let limit = d.unwrap_or(128);
    let expect_ok = n <= limit as usize;
    let _ = take_max_nesting();
    l.evals += 1;
    let res = guard(|| {
        match d {
            Some(d) => {
                let mut p = eng.scheme.parser();
                p.set_max_nesting_depth(d);
                p.parse(text).map(|_| ()).map_err(|e| e.to_string())
            }
            None => eng.scheme.parse(text).map(|_| ()).map_err(|e| e.to_string()),
        }
    });
    let reached = take_max_nesting();
    match res {
        Err(p) => run.violation(
            &format!("C13/panic/{}", first_line(&p)),
            "no-panic",
            fam,
            i,
            json!({"filter": text, "limit": limit, "panic": p}),
        ),
        Ok(Ok(())) => {
            if !expect_ok {
                run.violation(
                    &format!("C13/accepted-beyond-limit/{}", shape(expr, 2)),
                    "accept-iff-nesting<=d",
                    fam,
                    i,
                    json!({"filter": text, "limit": limit, "nesting": n, "max_depth_reached": reached}),
                );
            } else if reached as usize != n {
                run.violation(
                    &format!("C13/depth-counter-disagrees/{}", shape(expr, 2)),
                    "hook:max-depth==nesting",
                    fam,
                    i,
                    json!({"filter": text, "limit": limit, "nesting": n, "max_depth_reached": reached}),
                );
            }
            l.count("accepted");
        }
        Ok(Err(e)) => {
            if expect_ok {
                run.violation(
                    &format!("C13/rejected-within-limit/{}", error_kind(&e)),
                    "accept-iff-nesting<=d",
                    fam,
                    i,
                    json!({"filter": text, "limit": limit, "nesting": n, "error": e}),
                );
            } else if !limit_error(&e, limit) {
                run.violation(
                    &format!("C13/wrong-error-kind/{}", error_kind(&e)),
                    "error-kind",
                    fam,
                    i,
                    json!({"filter": text, "limit": limit, "nesting": n, "error": e}),
                );
            } else if reached > limit {
                run.violation(
                    "C13/depth-counter-exceeded-limit",
                    "hook:max-depth<=d",
                    fam,
                    i,
                    json!({"filter": text, "limit": limit, "max_depth_reached": reached}),
                );
            }
            l.count("rejected");
        }
    }
}

fn random_shape(env: &Env, r: &mut Rng, depth: usize) -> Expr {
    let nm = names(env);
    // choose a leaf and wrap `depth` times, ending as a plain boolean
    loop {
        let ls = leaves(env);
        let (mut e, mut arr) = ls[r.below(ls.len())].clone();
        let mut ok = true;
        for step in 0..depth {
            let remaining = depth - step - 1;
            let mut cands: Vec<K> = KS
                .iter()
                .copied()
                .filter(|k| wrap(&nm, *k, e.clone(), arr).is_some())
                .collect();
            if remaining == 0 {
                // must end as Bool
                cands.retain(|k| !wrap(&nm, *k, e.clone(), arr).unwrap().1);
            }
            if cands.is_empty() {
                ok = false;
                break;
            }
            let k = cands[r.below(cands.len())];
            let (w, a) = wrap(&nm, k, e, arr).unwrap();
            e = w;
            arr = a;
        }
        if ok && !arr {
            return e;
        }
    }
}

fn deep_texts() -> Vec<(&'static str, Box<dyn Fn(usize) -> String + Sync + Send>)> {
    vec![
        (
            "parens",
            Box::new(|n| format!("{}tru_m{}", "(".repeat(n), ")".repeat(n))),
        ),
        ("nots", Box::new(|n| format!("{}tru_m", "not ".repeat(n)))),
        ("bangs", Box::new(|n| format!("{}tru_m", "!".repeat(n)))),
        (
            "calls",
            Box::new(|n| format!("{}tru_m{}", "neg1(".repeat(n), ")".repeat(n))),
        ),
        (
            "second-args",
            Box::new(|n| format!("{}tru_m{}", "nboth1(tru_m,".repeat(n), ")".repeat(n))),
        ),
        (
            "quantifiers",
            // any(lift1( ... )) : two levels per repetition
            Box::new(|n| {
                let pairs = n / 2;
                let extra = n % 2;
                format!(
                    "{}{}tru_m{}{}",
                    "(".repeat(extra),
                    "any(lift1(".repeat(pairs),
                    "))".repeat(pairs),
                    ")".repeat(extra)
                )
            }),
        ),
        (
            "mixed",
            Box::new(|n| {
                let mut open = String::new();
                let mut close = String::new();
                for k in 0..n {
                    match k % 3 {
                        0 => {
                            open.push('(');
                            close.insert(0, ')');
                        }
                        1 => open.push_str("not "),
                        _ => {
                            open.push_str("neg1(");
                            close.insert(0, ')');
                        }
                    }
                }
                format!("{}tru_m{}", open, close)
            }),
        ),
    ]
}

/// Flat chains: nesting 0 whatever the number of operands. (name, operand, separator(s))
fn flat_chains() -> Vec<(&'static str, Box<dyn Fn(usize) -> String + Sync + Send>)> {
    fn chain(n: usize, operand: &'static str, ops: &'static [&'static str]) -> String {
        let mut s = String::from(operand);
        for k in 1..n {
            s.push_str(ops[k % ops.len()]);
            s.push_str(operand);
        }
        s
    }
    vec![
        ("and", Box::new(|n| chain(n, "tru_m", &[" and "]))),
        ("or", Box::new(|n| chain(n, "tru_m", &[" or "]))),
        ("xor", Box::new(|n| chain(n, "tru_m", &[" xor "]))),
        ("and-symbol", Box::new(|n| chain(n, "tru_m", &["&&"]))),
        ("or-symbol", Box::new(|n| chain(n, "tru_m", &[" || "]))),
        ("xor-symbol", Box::new(|n| chain(n, "tru_m", &["^^"]))),
        ("xor-of-comparisons", Box::new(|n| chain(n, "num_m == 1", &[" xor ", " ^^ "]))),
        ("mixed-precedence", Box::new(|n| chain(n, "tru_m", &[" or ", " and ", " xor "]))),
        ("mixed-precedence-2", Box::new(|n| chain(n, "tru_m", &[" xor ", " or ", " xor ", " and "]))),
        ("array-and", Box::new(|n| format!("any(({}))", chain(n, "l_tru_m", &[" and "])))),
        ("array-or", Box::new(|n| format!("any(({}))", chain(n, "l_tru_m", &[" or "])))),
        ("array-xor", Box::new(|n| format!("all(({}))", chain(n, "l_tru_m", &[" xor "])))),
        ("xor-in-parens", Box::new(|n| format!("((({})))", chain(n, "tru_m", &[" xor "])))),
        ("xor-in-call-argument", Box::new(|n| format!("neg1(({}))", chain(n, "tru_m", &[" xor "])))),
    ]
}

/// Maximum bracket depth of a JSON text (iterative; strings skipped).
fn json_depth(js: &str) -> usize {
    let (mut d, mut max, mut in_str, mut esc) = (0usize, 0usize, false, false);
    for c in js.bytes() {
        if in_str {
            if esc {
                esc = false;
            } else if c == b'\\' {
                esc = true;
            } else if c == b'"' {
                in_str = false;
            }
            continue;
        }
        match c {
            b'"' => in_str = true,
            b'[' | b'{' => {
                d += 1;
                max = max.max(d);
            }
            b']' | b'}' => d = d.saturating_sub(1),
            _ => {}
        }
    }
    max
}

fn budget_of(variant: &str) -> usize {
    stack_budget(variant)
}

pub fn stack_budget(variant: &str) -> usize {
    match variant {
        "dbg" => 8 << 20,
        "asan" => 64 << 20,
        _ => 2 << 20,
    }
}

pub fn run(run: &Run) {
    let eng = Eng::new(rich_env(0));
    let env = &eng.env;
    let seed = run.opts.seed;

    // ---- exhaustive: every construct sequence up to depth D against every d in 0..=8
    let depth = if run.opts.thorough() { 7 } else { 5 };
    if run.opts.wants("shapes") && !run.is_child() {
        let shapes = enumerate(env, depth);
        run.note("construct_sequences", json!(shapes.len()));
        run.note("enumeration_depth", json!(depth));
        run.exhaustive("shapes", true);
        run.parallel("shapes", shapes.len() as u64, |i, l| {
            let base = &shapes[i as usize];
            for (pi, e) in placements(env, base).into_iter().enumerate() {
                let e = e.normalize();
                let text = print_filter(env, &e, Some(Rng::derive(seed, "c13-shape", i * 4 + pi as u64)));
                for d in 0..=8u16 {
                    check_limit(run, l, "shapes", i, &eng, &e, &text, Some(d));
                }
                if nesting(&e) >= 1 {
                    run.distinct(hash_str(&text));
                }
                if i % 3001 == 0 && pi == 1 {
                    run.sample("shapes", 4, || json!({"filter": text, "nesting": nesting(&e)}));
                }
            }
        });
    }

    // ---- value expressions: nested calls under parse_value
    if run.opts.wants("values") && !run.is_child() {
        let ids: Vec<usize> = ["ids1", "ids2", "upper1", "upper2"]
            .iter()
            .map(|n| env.func(n).unwrap())
            .collect();
        let str_m = env.field("str_m").unwrap();
        run.exhaustive("values", true);
        run.parallel("values", 12, |i, l| {
            let k = i as usize;
            let mut p = Path::field(str_m);
            for j in 0..k {
                p = Path {
                    base: Base::Call(Box::new(Call {
                        func: ids[j % ids.len()],
                        args: vec![Arg::Path(p)],
                    })),
                    idx: vec![],
                };
            }
            let text = print_value_expr(env, &p, Some(Rng::derive(seed, "c13-val", i)));
            let n = nesting_value(&p);
            for d in 0..=12u16 {
                l.evals += 1;
                let _ = take_max_nesting();
                let res = guard(|| {
                    let mut parser = eng.scheme.parser();
                    parser.set_max_nesting_depth(d);
                    parser.parse_value(&text).map(|_| ()).map_err(|e| e.to_string())
                });
                let reached = take_max_nesting();
                match res {
                    Ok(Ok(())) if n <= d as usize && reached as usize == n => {}
                    Ok(Err(e)) if n > d as usize && limit_error(&e, d) => {}
                    other => run.violation(
                        "C13/value-expression-limit",
                        "accept-iff-nesting<=d",
                        "values",
                        i,
                        json!({"value_expr": text, "limit": d, "nesting": n, "max_depth_reached": reached,
                               "outcome": format!("{:?}", other)}),
                    ),
                }
            }
            run.distinct(hash_str(&text));
        });
        // a call without arguments is one level, however it is spaced
        for (k, text) in ["zero1()", "zero2 ( )", "zero1(\n)", "idn1(zero1())", "idn1(idn2(zero2( )))"].iter().enumerate() {
            let n = 1 + text.matches("idn").count();
            for d in 0..=4u16 {
                let _ = take_max_nesting();
                let res = guard(|| {
                    let mut parser = eng.scheme.parser();
                    parser.set_max_nesting_depth(d);
                    parser.parse_value(text).map(|_| ()).map_err(|e| e.to_string())
                });
                let reached = take_max_nesting();
                match res {
                    Ok(Ok(())) if n <= d as usize && reached as usize == n => {}
                    Ok(Err(e)) if n > d as usize && limit_error(&e, d) => {}
                    other => run.violation(
                        "C13/value-expression-limit/empty-argument-list",
                        "accept-iff-nesting<=d",
                        "values",
                        100 + k as u64,
                        json!({"value_expr": text, "limit": d, "nesting": n, "max_depth_reached": reached,
                               "outcome": format!("{:?}", other)}),
                    ),
                }
            }
        }
    }

    // ---- larger limits: random shapes at depth d-1, d, d+1; default parser
    if run.opts.wants("large") && !run.is_child() {
        let n = run.opts.size(3_000, 60_000);
        run.parallel("large", n, |i, l| {
            let mut r = Rng::derive(seed, "c13-large", i);
            let (d, default) = match i % 12 {
                0 => (16u16, false),
                1 => (64, false),
                2 => (128, false),
                3 => (129, false),
                4 => (200, false),
                5 => (255, false),
                6 => (256, false),
                7 => (257, false),
                8 => (300, false),
                9 => (513, false),
                10 => (1000, false),
                _ => (128, true),
            };
            let depth = (d as i64 + r.below(3) as i64 - 1) as usize;
            // recursion is bounded by d, not by a constant: whoever configures
            // d = 1000 provides the stack for it (and so does this harness, whose
            // own tree walks recurse as deep)
            let eng = &eng;
            std::thread::scope(|sc| {
                let h = std::thread::Builder::new().stack_size(if d > 200 { 512 << 20 } else { 16 << 20 }).spawn_scoped(sc, || {
                    let e = random_shape(env, &mut r, depth);
                    let e = match i % 4 {
                        0 => e,
                        _ => placements(env, &e)[(i % 3) as usize].clone(),
                    }
                    .normalize();
                    let text = print_filter(env, &e, Some(Rng::derive(seed, "c13-largep", i)));
                    check_limit(run, l, "large", i, eng, &e, &text, if default { None } else { Some(d) });
                    run.distinct(hash_str(&text));
                    if i % 211 == 0 {
                        run.sample("large", 2, || json!({"limit": d, "default_parser": default, "nesting": nesting(&e), "text_len": text.len()}));
                    }
                });
                match h {
                    Ok(h) => {
                        let _ = h.join();
                    }
                    Err(e) => run.inconclusive(format!("cannot spawn a large-stack thread: {}", e)),
                }
            });
        });
    }

    // ---- flat chains have nesting 0 however many operands they have: accepted
    // with d = 0, and the depth of the tree they produce (observed as the
    // bracket depth of the serialised AST) does not grow with the operand count
    let flat = flat_chains();
    if run.opts.wants("flat") && !run.is_child() {
        run.exhaustive("flat", true);
        run.parallel("flat", flat.len() as u64, |i, l| {
            let (name, mk) = &flat[i as usize];
            let mut depths: Vec<(usize, usize)> = Vec::new();
            let extra_nesting = match *name {
                "array-and" | "array-or" | "array-xor" | "xor-in-call-argument" => 2u16,
                "xor-in-parens" => 3,
                _ => 0,
            };
            for n in [2usize, 3, 4, 5, 8, 33, 400] {
                let text = mk(n);
                l.evals += 1;
                let res = guard(|| {
                    let mut parser = eng.scheme.parser();
                    parser.set_max_nesting_depth(extra_nesting);
                    parser.parse(&text).map_err(|e| e.to_string()).map(|ast| serde_json::to_string(&ast).unwrap_or_default())
                });
                match res {
                    Ok(Ok(js)) => depths.push((n, json_depth(&js))),
                    other => {
                        run.violation(
                            &format!("C13/flat-chain-rejected/{}", name),
                            "accept-iff-nesting<=d",
                            "flat",
                            i,
                            json!({"chain": name, "operands": n, "limit": extra_nesting, "outcome": format!("{:?}", other.map(|r| r.map(|_| ())))}),
                        );
                        return;
                    }
                }
            }
            // the 2-operand chain of a mixed-precedence family has fewer levels
            // than the longer ones; from 5 operands on every level is present
            let reference = depths.iter().find(|(n, _)| *n == 8).map(|x| x.1).unwrap_or(0);
            for (n, d) in &depths {
                if *n >= 8 && *d != reference {
                    run.violation(
                        &format!("C13/tree-depth-grows-with-operand-count/{}", name),
                        "depth-independent-of-chain-length",
                        "flat",
                        i,
                        json!({"chain": name, "json_depth_by_operand_count": depths}),
                    );
                    break;
                }
                if *n < 8 && *d > reference {
                    run.violation(
                        &format!("C13/tree-depth-grows-with-operand-count/{}", name),
                        "depth-independent-of-chain-length",
                        "flat",
                        i,
                        json!({"chain": name, "json_depth_by_operand_count": depths}),
                    );
                    break;
                }
            }
            run.distinct(hash_str(&format!("flat|{}", name)));
            run.sample("flat", 3, || json!({"chain": name, "json_depth_by_operand_count": depths}));
        });
    }

    // ---- ... and the whole life cycle of a 20 000-operand chain needs no more
    // stack than that of a 4-operand chain (one process per chain kind)
    run.isolated("flat-long", flat.len() as u64, 300, "C13", |i, l| {
        let (name, mk) = &flat[i as usize];
        let mut used_by_n: Vec<(usize, usize)> = Vec::new();
        for n in [4usize, 20_000] {
            let text = mk(n);
            let scheme = eng.scheme.clone();
            let env2 = eng.env.clone();
            let m = crate::stack::measure(budget_of(&run.opts.variant), move || {
                let ast = scheme.parse(&text).map_err(|e| e.to_string())?;
                let json = serde_json::to_string(&ast).map_err(|e| e.to_string())?;
                let mut h = std::collections::hash_map::DefaultHasher::new();
                std::hash::Hash::hash(&ast, &mut h);
                let copy = ast.clone();
                let eq = copy == ast;
                let filter = ast.compile();
                let mut r = Rng::new(5);
                let vals = gen_ctx(&mut r, &env2);
                let ctx = crate::engine::build_ctx(&scheme, &env2, &vals, &ListState::default());
                let res = filter.execute(&ctx).map_err(|e| e.to_string())?;
                drop(filter);
                drop(copy);
                Ok::<(usize, bool, bool), String>((json_depth(&json), res, eq))
            });
            l.evals += 1;
            match m {
                Some((Ok(_), used)) => used_by_n.push((n, used)),
                Some((Err(e), _)) => {
                    run.violation(
                        &format!("C13/flat-chain-rejected/{}", name),
                        "accept-iff-nesting<=d",
                        "flat-long",
                        i,
                        json!({"chain": name, "operands": n, "error": e}),
                    );
                    return;
                }
                None => {
                    run.inconclusive("stack measurement unavailable");
                    return;
                }
            }
        }
        let (small, long) = (used_by_n[0].1, used_by_n[1].1);
        run.note(&format!("stack_bytes_flat_{}", name), json!({"operands_4": small, "operands_20000": long}));
        if long > small + small / 4 + (64 << 10) {
            run.violation(
                &format!("C13/recursion-grows-with-operand-count/{}", name),
                "relative-stack",
                "flat-long",
                i,
                json!({"chain": name, "life_cycle_stack_bytes_4_operands": small, "life_cycle_stack_bytes_20000_operands": long}),
            );
        }
        run.distinct(hash_str(&format!("flat-long|{}", name)));
        run.sample("flat-long", 4, || json!({"chain": name, "stack_bytes": used_by_n}));
    });

    // ---- recursion stays bounded: whole life cycle of depth-128 filters on a
    // budgeted stack, and a 10^5-deep input must not use more stack than the
    // accepted depth-128 input does (relative monitor). Each case runs in its
    // own process because the failure mode is a stack overflow.
    let deep = deep_texts();
    let budget = stack_budget(&run.opts.variant);
    run.isolated("deep", deep.len() as u64, 300, "C13", |i, l| {
        let (name, mk) = &deep[i as usize];
        let accepted = mk(128);
        let rejected = mk(100_000);
        let scheme = eng.scheme.clone();
        let env2 = eng.env.clone();
        // (a) full life cycle at the limit
        let acc = accepted.clone();
        let life = crate::stack::measure(budget, move || {
            let ast = scheme.parse(&acc).map_err(|e| e.to_string())?;
            let json = serde_json::to_string(&ast).map_err(|e| e.to_string())?;
            let mut h = std::collections::hash_map::DefaultHasher::new();
            std::hash::Hash::hash(&ast, &mut h);
            let copy = ast.clone();
            let filter = ast.compile();
            let mut r = Rng::new(5);
            let vals = gen_ctx(&mut r, &env2);
            let ctx = crate::engine::build_ctx(&scheme, &env2, &vals, &ListState::default());
            let res = filter.execute(&ctx).map_err(|e| e.to_string())?;
            drop(filter);
            drop(copy);
            Ok::<(usize, bool), String>((json.len(), res))
        });
        l.evals += 1;
        let life_used = match life {
            Some((Ok(_), used)) => used,
            Some((Err(e), _)) => {
                run.violation(
                    &format!("C13/depth-128-filter-rejected/{}", name),
                    "accept-iff-nesting<=d",
                    "deep",
                    i,
                    json!({"construct": name, "error": e}),
                );
                return;
            }
            None => {
                run.inconclusive("stack measurement unavailable");
                return;
            }
        };
        // (b) parse only, accepted vs. far too deep
        let scheme = eng.scheme.clone();
        let acc = accepted.clone();
        let p_acc = crate::stack::measure(budget, move || scheme.parse(&acc).is_ok());
        let scheme = eng.scheme.clone();
        let rej = rejected.clone();
        let p_rej = crate::stack::measure(budget, move || match scheme.parse(&rej) {
            Ok(_) => "accepted".to_string(),
            Err(e) => e.to_string().lines().last().unwrap_or("").to_string(),
        });
        l.evals += 2;
        if let (Some((true, a)), Some((msg, b))) = (&p_acc, &p_rej) {
            run.note(
                &format!("stack_bytes_{}", name),
                json!({"life_cycle_depth128": life_used, "parse_depth128": a, "parse_depth100000": b, "budget": budget}),
            );
            if !msg.contains("maximum nesting depth exceeded") {
                run.violation(
                    &format!("C13/deep-input-not-cut-off/{}", name),
                    "error-kind",
                    "deep",
                    i,
                    json!({"construct": name, "outcome": msg}),
                );
            }
            if *b > a + a / 4 + (64 << 10) {
                run.violation(
                    &format!("C13/recursion-beyond-limit/{}", name),
                    "relative-stack",
                    "deep",
                    i,
                    json!({"construct": name, "parse_depth128_bytes": a, "parse_depth100000_bytes": b}),
                );
            }
        } else {
            run.violation(
                &format!("C13/deep-parse-failed/{}", name),
                "accept-iff-nesting<=d",
                "deep",
                i,
                json!({"construct": name, "accepted_parse": format!("{:?}", p_acc.map(|x| x.0))}),
            );
        }
        run.distinct(hash_str(&format!("deep|{}", name)));
        run.sample("deep", 8, || json!({"construct": name, "depth": 128, "life_cycle_stack_bytes": life_used}));
    });
}
