//! C16 — a scheme is a consistent registry of uniquely named fields,
//! functions and lists.

use super::common::*;
use crate::prng::Rng;
use crate::report::{guard, Local, Run};
use crate::rv::RType;
use serde_json::json;
use wirefilter::{
    AlwaysList, FunctionArgs, GetType, LhsValue, NeverList, Scheme, SchemeBuilder,
    SimpleFunctionDefinition, SimpleFunctionImpl, Type,
};

fn seven<'a>(_args: FunctionArgs<'_, 'a>) -> Option<LhsValue<'a>> {
    Some(LhsValue::Int(7))
}

fn fn_def() -> SimpleFunctionDefinition {
    SimpleFunctionDefinition {
        params: vec![],
        opt_params: vec![],
        return_type: Type::Int,
        implementation: SimpleFunctionImpl::new(seven),
    }
}

#[derive(Clone, Debug, PartialEq, Eq)]
pub enum Op {
    Field(String, RType),
    OptField(String, RType),
    Function(String),
    List(RType, bool),
}

#[derive(Clone, Debug, PartialEq, Eq)]
enum Kind {
    Field,
    Function,
}

#[derive(Default, Clone, Debug)]
struct Model {
    fields: Vec<(String, RType, bool)>,
    functions: Vec<String>,
    lists: Vec<RType>,
}

impl Model {
    fn kind(&self, n: &str) -> Option<Kind> {
        if self.fields.iter().any(|f| f.0 == n) {
            Some(Kind::Field)
        } else if self.functions.iter().any(|f| f == n) {
            Some(Kind::Function)
        } else {
            None
        }
    }
}

pub const NAMES: [&str; 6] = ["x", "x.y", "x.y.z", "X", "xy", "x_y"];

fn small_pool() -> Vec<Op> {
    let mut v = Vec::new();
    for n in NAMES {
        v.push(Op::Field(n.into(), RType::Int));
        v.push(Op::OptField(n.into(), RType::Bytes));
        v.push(Op::Function(n.into()));
    }
    v.push(Op::List(RType::Int, true));
    v.push(Op::List(RType::Bytes, false));
    v
}

fn wide_pool() -> Vec<Op> {
    let mut v = Vec::new();
    for n in NAMES {
        for t in [RType::Int, RType::Bool] {
            v.push(Op::Field(n.into(), t.clone()));
            v.push(Op::OptField(n.into(), t));
        }
        v.push(Op::Function(n.into()));
    }
    v.push(Op::List(RType::Int, true));
    v.push(Op::List(RType::Bytes, false));
    v.push(Op::List(RType::Ip, true));
    v
}

fn lookup_names() -> Vec<String> {
    let mut v: Vec<String> = NAMES.iter().map(|s| s.to_string()).collect();
    for extra in [
        "", "x.", ".x", "x.y.", "x.y.z.w", "x.z", "y", "y.z", "z", "xY", "XY", "x_", "_y", "x.Y", "X.y", "x y",
        "xyz", "x.yz",
    ] {
        v.push(extra.to_string());
    }
    v
}

fn run_sequence(run: &Run, l: &mut Local, fam: &str, i: u64, ops: &[Op]) {
    l.evals += 1;
    let mut b = SchemeBuilder::new();
    let mut m = Model::default();
    let describe = || json!({"ops": ops.iter().map(|o| format!("{:?}", o)).collect::<Vec<_>>()});
    for (k, op) in ops.iter().enumerate() {
        let res: Result<Result<(), String>, String> = guard(|| match op {
            Op::Field(n, t) => b.add_field(n, t.to_engine()).map_err(|e| format!("{:?}|{}", e, e)),
            Op::OptField(n, t) => b
                .add_optional_field(n, t.to_engine())
                .map_err(|e| format!("{:?}|{}", e, e)),
            Op::Function(n) => b.add_function(n, fn_def()).map_err(|e| format!("{:?}|{}", e, e)),
            Op::List(t, always) => if *always {
                b.add_list(t.to_engine(), AlwaysList {})
            } else {
                b.add_list(t.to_engine(), NeverList {})
            }
            .map_err(|e| format!("{:?}|{}", e, e)),
        });
        let res = match res {
            Ok(r) => r,
            Err(p) => {
                run.violation(
                    &format!("C16/add-panics/{}", first_line(&p)),
                    "no-panic",
                    fam,
                    i,
                    json!({"step": k, "history": describe(), "panic": p}),
                );
                return;
            }
        };
        // model
        let expected: Result<(), (String, String)> = match op {
            Op::Field(n, _) | Op::OptField(n, _) | Op::Function(n) => match m.kind(n) {
                Some(Kind::Field) => Err(("Field(".into(), format!("attempt to redefine field {}", n))),
                Some(Kind::Function) => Err(("Function(".into(), format!("attempt to redefine function {}", n))),
                None => Ok(()),
            },
            Op::List(t, _) => {
                if m.lists.contains(t) {
                    Err(("ListRedefinitionError".into(), "attempt to redefine list for type".into()))
                } else {
                    Ok(())
                }
            }
        };
        match (&res, &expected) {
            (Ok(()), Ok(())) => match op {
                Op::Field(n, t) => m.fields.push((n.clone(), t.clone(), false)),
                Op::OptField(n, t) => m.fields.push((n.clone(), t.clone(), true)),
                Op::Function(n) => m.functions.push(n.clone()),
                Op::List(t, _) => m.lists.push(t.clone()),
            },
            (Err(e), Err((dbg_part, msg))) if e.contains(dbg_part.as_str()) && e.contains(msg.as_str()) => {
                l.count("rejected_adds");
            }
            _ => {
                run.violation(
                    &format!(
                        "C16/add-result/{}-instead-of-{}",
                        match &res {
                            Ok(()) => "Ok".to_string(),
                            Err(e) => e.split('(').next().unwrap_or("Err").to_string(),
                        },
                        match &expected {
                            Ok(()) => "Ok".to_string(),
                            Err((d, _)) => d.trim_end_matches('(').to_string(),
                        }
                    ),
                    "registry-model",
                    fam,
                    i,
                    json!({"step": k, "history": describe(), "got": format!("{:?}", res), "expected": format!("{:?}", expected)}),
                );
                return;
            }
        }
    }
    // ---- the built scheme against the model
    let scheme: Scheme = b.build();
    // long histories: every name that was ever offered is looked up, with its one-segment
    // extension and its proper prefix (short histories use the fixed colliding pool)
    let mut extra: Vec<String> = Vec::new();
    if ops.len() > 20 {
        for op in ops {
            if let Op::Field(n, _) | Op::OptField(n, _) | Op::Function(n) = op {
                if !extra.contains(n) {
                    extra.push(n.clone());
                    extra.push(format!("{}.q", n));
                    extra.push(n[..n.len() - 1].to_string());
                }
            }
        }
    }
    let problems = guard(|| check_scheme(&scheme, &m, &extra));
    match problems {
        Ok(ps) => {
            for (what, detail) in ps {
                run.violation(
                    &format!("C16/scheme/{}", what),
                    "registry-model",
                    fam,
                    i,
                    json!({"history": describe(), "detail": detail}),
                );
            }
        }
        Err(p) => run.violation(
            &format!("C16/scheme-panics/{}", first_line(&p)),
            "no-panic",
            fam,
            i,
            json!({"history": describe(), "panic": p}),
        ),
    }
}

fn check_scheme(s: &Scheme, m: &Model, extra_names: &[String]) -> Vec<(String, serde_json::Value)> {
    let mut out = Vec::new();
    let mut bad = |w: &str, d: serde_json::Value| out.push((w.to_string(), d));
    if s.field_count() != m.fields.len() {
        bad("field_count", json!({"got": s.field_count(), "expected": m.fields.len()}));
    }
    if s.function_count() != m.functions.len() {
        bad("function_count", json!({"got": s.function_count(), "expected": m.functions.len()}));
    }
    if s.list_count() != m.lists.len() {
        bad("list_count", json!({"got": s.list_count(), "expected": m.lists.len()}));
    }
    let fields: Vec<(String, RType, bool, usize)> = s
        .fields()
        .map(|f| (f.name().to_string(), RType::from_engine(f.get_type()), f.optional(), f.index()))
        .collect();
    let want: Vec<(String, RType, bool, usize)> = m
        .fields
        .iter()
        .enumerate()
        .map(|(i, f)| (f.0.clone(), f.1.clone(), f.2, i))
        .collect();
    if fields != want {
        bad("fields()", json!({"got": format!("{:?}", fields), "expected": format!("{:?}", want)}));
    }
    let funcs: Vec<(String, usize)> = s.functions().map(|f| (f.name().to_string(), f.index())).collect();
    let wantf: Vec<(String, usize)> = m.functions.iter().cloned().enumerate().map(|(i, n)| (n, i)).collect();
    if funcs != wantf {
        bad("functions()", json!({"got": format!("{:?}", funcs), "expected": format!("{:?}", wantf)}));
    }
    let lists: Vec<RType> = s.lists().map(|l| RType::from_engine(l.get_type())).collect();
    if lists != m.lists {
        bad("lists()", json!({"got": format!("{:?}", lists)}));
    }
    for t in [RType::Int, RType::Bytes, RType::Ip, RType::Bool, RType::arr(RType::Int)] {
        let got = s.get_list(&t.to_engine()).map(|l| RType::from_engine(l.get_type()));
        let want = if m.lists.contains(&t) { Some(t.clone()) } else { None };
        if got != want {
            bad("get_list", json!({"type": t.short(), "got": format!("{:?}", got)}));
        }
    }
    for n in lookup_names().into_iter().chain(extra_names.iter().cloned()) {
        let kind = m.kind(&n);
        // lookups by exact name only
        let gf = s.get_field(&n).ok().map(|f| (f.name().to_string(), RType::from_engine(f.get_type()), f.optional()));
        let wf = m.fields.iter().find(|f| f.0 == n).cloned();
        if gf != wf {
            bad("get_field", json!({"name": n, "got": format!("{:?}", gf), "expected": format!("{:?}", wf)}));
        }
        let gfn = s.get_function(&n).ok().map(|f| f.name().to_string());
        let wfn = m.functions.iter().find(|f| **f == n).cloned();
        if gfn != wfn {
            bad("get_function", json!({"name": n, "got": gfn, "expected": wfn}));
        }
        // resolution through the parser; only names that are lexically identifiers
        let ident_like = !n.is_empty()
            && n.chars().all(|c| c.is_ascii_alphanumeric() || c == '_' || c == '.')
            && !n.starts_with('.')
            && !n.ends_with('.')
            && !n.contains("..");
        if !ident_like {
            continue;
        }
        let field_ty = wf.as_ref().map(|f| f.1.clone());
        let probes: [(String, bool); 4] = [
            (format!("{} == 1", n), field_ty == Some(RType::Int)),
            (format!("{} == \"a\"", n), field_ty == Some(RType::Bytes)),
            (n.to_string(), field_ty == Some(RType::Bool)),
            (format!("{}() == 7", n), kind == Some(Kind::Function)),
        ];
        for (text, expect_ok) in probes {
            let ok = s.parse(&text).is_ok();
            if ok != expect_ok {
                bad(
                    "identifier-resolution",
                    json!({"filter": text, "parsed": ok, "expected": expect_ok, "registered_as": format!("{:?}", kind)}),
                );
            }
        }
    }
    // identity: a clone is interchangeable, a structurally identical rebuild is not
    let c = s.clone();
    if c != *s {
        bad("clone-not-equal", json!({}));
    }
    out
}

pub fn run(run: &Run) {
    let seed = run.opts.seed;
    let pool = small_pool();
    let n = pool.len() as u64;
    let max_len = if run.opts.thorough() { 5 } else { 4 };
    let mut total = 0u64;
    let mut p = 1u64;
    for _ in 0..=max_len {
        total += p;
        p *= n;
    }
    run.exhaustive("sequences", true);
    run.note("op_instances", json!(pool.len()));
    run.note("max_sequence_length", json!(max_len));
    run.parallel("sequences", total, |i, l| {
        let mut x = i;
        let mut len = 0usize;
        let mut block = 1u64;
        while x >= block {
            x -= block;
            block *= n;
            len += 1;
        }
        let mut ops = Vec::with_capacity(len);
        for _ in 0..len {
            ops.push(pool[(x % n) as usize].clone());
            x /= n;
        }
        run_sequence(run, l, "sequences", i, &ops);
        if len >= 2 {
            run.distinct(i.wrapping_mul(0x9E37_79B9_7F4A_7C15));
        }
        if i % 30011 == 0 {
            run.sample("sequences", 4, || json!(ops.iter().map(|o| format!("{:?}", o)).collect::<Vec<_>>()));
        }
    });

    let wide = wide_pool();
    let nr = run.opts.size(200_000, 6_000_000);
    run.parallel("random", nr, |i, l| {
        let mut r = Rng::derive(seed, "c16-r", i);
        let len = r.range(6, 12);
        let ops: Vec<Op> = (0..len).map(|_| wide[r.below(wide.len())].clone()).collect();
        run_sequence(run, l, "random", i, &ops);
        run.distinct(crate::report::hash_str(&format!("{:?}", ops)));
    });

    // ---- wide registries: 40..400 registrations (fields, optional fields, functions in
    // random interleaving, some names offered twice); index- and size-dependent behaviour
    // (tables keyed on an index above 63/255, rehashing) is out of reach of 6-step histories
    let nw = run.opts.size(300, 6_000);
    run.parallel("wide", nw, |i, l| {
        let mut r = Rng::derive(seed, "c16-wide", i);
        let len = [40usize, 63, 64, 65, 66, 100, 128, 129, 130, 200, 256, 257, 300, 400][(i as usize) % 14];
        let types = [RType::Int, RType::Bytes, RType::Bool, RType::Ip, RType::arr(RType::Int), RType::map(RType::Bytes)];
        let mut ops: Vec<Op> = Vec::with_capacity(len + 2);
        for k in 0..len {
            // one name in eight repeats an earlier one (must be refused, whatever its kind)
            let id = if k > 0 && r.chance(1, 8) { r.below(k) } else { k };
            let name = match id % 3 {
                0 => format!("w{}", id),
                1 => format!("w{}.sub", id),
                _ => format!("w.deep.n{}", id),
            };
            let t = types[r.below(types.len())].clone();
            ops.push(match r.below(5) {
                0 | 1 => Op::Field(name, t),
                2 => Op::OptField(name, t),
                _ => Op::Function(name),
            });
        }
        ops.push(Op::List(RType::Int, true));
        ops.push(Op::List(RType::Int, false));
        run_sequence(run, l, "wide", i, &ops);
        l.count("wide_registries");
        run.distinct(crate::report::hash_str(&format!("{:?}", ops)));
        if i % 97 == 0 {
            run.sample("wide", 2, || json!({"registrations": len, "first": format!("{:?}", &ops[..3])}));
        }
    });

    // two identical builds are different schemes; contexts/filters are bound to one
    run.parallel("identity", 50, |i, l| {
        l.evals += 1;
        let mk = || {
            let mut b = SchemeBuilder::new();
            b.add_field("x", Type::Int).unwrap();
            if i % 2 == 0 {
                b.add_optional_field("x.y", Type::Bytes).unwrap();
            }
            b.build()
        };
        let (a, b) = (mk(), mk());
        if a == b {
            run.violation("C16/identical-builds-compare-equal", "identity", "identity", i, json!({}));
        }
        if a != a.clone() {
            run.violation("C16/clone-not-equal", "identity", "identity", i, json!({}));
        }
        let fa = a.get_field("x").unwrap();
        let fb = b.get_field("x").unwrap();
        if fa == fb {
            run.violation("C16/fields-of-distinct-schemes-equal", "identity", "identity", i, json!({}));
        }
        let mut ctx = wirefilter::ExecutionContext::<()>::new(&a);
        if ctx.set_field_value(fb, 1).is_ok() {
            run.violation("C16/foreign-field-accepted", "identity", "identity", i, json!({}));
        }
        run.distinct(i ^ 0xabcdef);
    });
}
