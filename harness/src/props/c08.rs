//! C08 — execution contexts are typed field maps bound to one scheme.

use super::common::*;
use crate::ast::*;
use crate::engine::{build_scheme, take_call_log};
use crate::gen::*;
use crate::printer::print_filter;
use crate::prng::Rng;
use crate::refsem::{Eval, ListState};
use crate::report::{guard, hash_str, Local, Run};
use crate::rv::{RType, RV};
use serde_json::json;
use std::collections::BTreeMap;
use wirefilter::{
    Array, ExecutionContext, GetType, LhsValue, Map, Scheme, SetFieldValueError, Type, TypeMismatchError,
    TypedArray, TypedMap,
};

#[derive(Clone, Debug)]
enum Op {
    Set(usize, RV),
    SetByName(String, RV),
    SetForeign(usize, RV),
    Get(usize),
    Clear,
    /// make a clone and continue on the clone (the original stays live)
    CloneSwitch,
    /// clone, keep working on the original
    CloneKeep,
    /// borrow_with: perform the inner sets on the guard, then drop it
    Borrow(Vec<(usize, RV)>),
    Take,
    Exec,
    ExecForeign,
    Compare,
}

struct Handle {
    ctx: ExecutionContext<'static>,
    model: Vec<Option<RV>>,
}

fn small_env() -> Env {
    Env {
        fields: vec![
            FieldDesc {
                name: "arr".into(),
                ty: RType::arr(RType::Bytes),
                optional: true,
            },
            FieldDesc {
                name: "mai".into(),
                ty: RType::map(RType::arr(RType::Int)),
                optional: true,
            },
        ],
        funcs: function_family(1),
        lists: vec![],
        nil_ne: true,
    }
}

/// 1 well-typed + 3 ill-typed values per field: wrong primitive, right
/// container / wrong element, right shape / wrong depth
fn value_pool(t: &RType) -> Vec<RV> {
    let mut m = BTreeMap::new();
    if *t == RType::arr(RType::Bytes) {
        vec![
            RV::Array(RType::Bytes, vec![RV::Bytes(b"x".to_vec()), RV::Bytes(vec![])]),
            RV::Int(7),
            RV::Array(RType::Int, vec![RV::Int(1)]),
            RV::Array(
                RType::arr(RType::Bytes),
                vec![RV::Array(RType::Bytes, vec![RV::Bytes(b"x".to_vec())])],
            ),
        ]
    } else {
        m.insert(b"k".to_vec(), RV::Array(RType::Int, vec![RV::Int(1), RV::Int(2)]));
        let mut m2 = BTreeMap::new();
        m2.insert(b"k".to_vec(), RV::Array(RType::Bytes, vec![RV::Bytes(b"1".to_vec())]));
        let mut m3 = BTreeMap::new();
        m3.insert(b"k".to_vec(), RV::Int(1));
        vec![
            RV::Map(RType::arr(RType::Int), m),
            RV::Bytes(b"k".to_vec()),
            RV::Map(RType::arr(RType::Bytes), m2),
            RV::Map(RType::Int, m3),
        ]
    }
}

struct World<'a> {
    env: &'a Env,
    scheme: &'a Scheme,
    foreign: &'a Scheme,
    filter_text: String,
    filter_expr: Expr,
}

fn show_op(o: &Op) -> String {
    match o {
        Op::Set(f, v) => format!("set(#{}, {} : {})", f, v.show(), v.ty().short()),
        Op::SetByName(n, v) => format!("set_by_name({:?}, {} : {})", n, v.show(), v.ty().short()),
        Op::SetForeign(f, v) => format!("set(field #{} of another scheme, {})", f, v.show()),
        Op::Get(f) => format!("get(#{})", f),
        Op::Clear => "clear".into(),
        Op::CloneSwitch => "clone_with, continue on the clone".into(),
        Op::CloneKeep => "clone_with, continue on the original".into(),
        Op::Borrow(sets) => format!(
            "borrow_with {{ {} }} drop",
            sets.iter().map(|(f, v)| format!("set(#{}, {})", f, v.show())).collect::<Vec<_>>().join("; ")
        ),
        Op::Take => "take_with".into(),
        Op::Exec => "execute filter + value expression".into(),
        Op::ExecForeign => "execute against a context of an identical but distinct scheme".into(),
        Op::Compare => "compare contexts".into(),
    }
}

fn check_set_result(
    res: Result<Option<LhsValue<'_>>, SetFieldValueError>,
    field_ty: Option<&RType>,
    value: &RV,
    prev: &Option<RV>,
    foreign: bool,
) -> Result<bool, String> {
    // returns Ok(true) if the model must be updated
    match (foreign, field_ty) {
        (true, _) => match res {
            Err(SetFieldValueError::SchemeMismatch(_)) => Ok(false),
            other => Err(format!("expected SchemeMismatch, got {:?}", other.map(|o| o.map(|v| format!("{:?}", v))))),
        },
        (false, None) => match res {
            Err(SetFieldValueError::UnknownField(_)) => Ok(false),
            other => Err(format!("expected UnknownField, got {:?}", other.map(|o| o.map(|v| format!("{:?}", v))))),
        },
        (false, Some(ft)) => {
            if value.ty() == *ft {
                match res {
                    Ok(old) => {
                        let old_rv = match &old {
                            Some(v) => Some(RV::from_lhs(v).map_err(|e| format!("previous value ill-formed: {}", e))?),
                            None => None,
                        };
                        if old_rv != *prev {
                            return Err(format!(
                                "set returned previous value {:?}, the model has {:?}",
                                old_rv.map(|v| v.show()),
                                prev.as_ref().map(|v| v.show())
                            ));
                        }
                        Ok(true)
                    }
                    Err(e) => Err(format!("well-typed set failed: {:?}", e)),
                }
            } else {
                match res {
                    Err(SetFieldValueError::TypeMismatch(TypeMismatchError { expected, actual })) => {
                        let exp_s = format!("{}", expected);
                        let want_s = format!("{}", ft.to_engine());
                        if RType::from_engine(actual) != value.ty() || exp_s != want_s {
                            return Err(format!(
                                "TypeMismatch reports expected={} actual={:?}, should be expected={} actual={}",
                                exp_s,
                                actual,
                                want_s,
                                value.ty().short()
                            ));
                        }
                        Ok(false)
                    }
                    other => Err(format!(
                        "ill-typed set (value {} for field {}) gave {:?}",
                        value.ty().short(),
                        ft.short(),
                        other.map(|o| o.map(|v| format!("{:?}", v)))
                    )),
                }
            }
        }
    }
}

fn invariant(w: &World<'_>, hs: &[Handle]) -> Result<(), String> {
    for (hi, h) in hs.iter().enumerate() {
        for (fi, f) in w.env.fields.iter().enumerate() {
            let field = w.scheme.get_field(&f.name).unwrap();
            let got = match h.ctx.get_field_value(field) {
                None => None,
                Some(v) => {
                    if RType::from_engine(v.get_type()) != f.ty {
                        return Err(format!(
                            "context #{} holds a {} in field {} declared {}",
                            hi,
                            RType::from_engine(v.get_type()).short(),
                            f.name,
                            f.ty.short()
                        ));
                    }
                    Some(RV::from_lhs(v).map_err(|e| format!("context #{} field {}: {}", hi, f.name, e))?)
                }
            };
            if got != h.model[fi] {
                return Err(format!(
                    "context #{} field {}: holds {:?}, model says {:?}",
                    hi,
                    f.name,
                    got.map(|v| v.show()),
                    h.model[fi].as_ref().map(|v| v.show())
                ));
            }
        }
    }
    Ok(())
}

/// Runs a history; returns a description of the first disagreement.
fn run_history(w: &World<'_>, ops: &[Op], l: &mut Local) -> Result<(), (usize, String)> {
    let n = w.env.fields.len();
    let mut hs = vec![Handle {
        ctx: ExecutionContext::new(w.scheme),
        model: vec![None; n],
    }];
    let mut cur = 0usize;
    for (k, op) in ops.iter().enumerate() {
        l.evals += 1;
        let step = (|| -> Result<(), String> {
            match op {
                Op::Set(f, v) => {
                    let field = w.scheme.get_field(&w.env.fields[*f].name).unwrap();
                    let res = hs[cur].ctx.set_field_value(field, v.to_lhs_unwrap());
                    let prev = hs[cur].model[*f].clone();
                    if check_set_result(res, Some(&w.env.fields[*f].ty), v, &prev, false)? {
                        hs[cur].model[*f] = Some(v.clone());
                    }
                }
                Op::SetByName(name, v) => {
                    let fi = w.env.field(name);
                    let res = hs[cur].ctx.set_field_value_from_name(name, v.to_lhs_unwrap());
                    let prev = fi.and_then(|f| hs[cur].model[f].clone());
                    if check_set_result(res, fi.map(|f| &w.env.fields[f].ty), v, &prev, false)? {
                        hs[cur].model[fi.unwrap()] = Some(v.clone());
                    }
                }
                Op::SetForeign(f, v) => {
                    let field = w.foreign.get_field(&w.env.fields[*f].name).unwrap();
                    let res = hs[cur].ctx.set_field_value(field, v.to_lhs_unwrap());
                    check_set_result(res, None, v, &None, true)?;
                }
                Op::Get(_) => {} // the invariant below reads every field of every context
                Op::Clear => {
                    hs[cur].ctx.clear();
                    hs[cur].model = vec![None; n];
                }
                Op::CloneSwitch | Op::CloneKeep => {
                    let c = hs[cur].ctx.clone_with(());
                    if c != hs[cur].ctx {
                        return Err("a fresh clone is not equal to its source".into());
                    }
                    let m = hs[cur].model.clone();
                    hs.push(Handle { ctx: c, model: m });
                    if matches!(op, Op::CloneSwitch) {
                        cur = hs.len() - 1;
                    }
                }
                Op::Borrow(sets) => {
                    let mut model = hs[cur].model.clone();
                    {
                        let mut g = hs[cur].ctx.borrow_with(());
                        for (f, v) in sets {
                            let field = w.scheme.get_field(&w.env.fields[*f].name).unwrap();
                            // the guard sees the original's values
                            let seen = g.get_field_value(field).map(RV::from_lhs);
                            let seen = match seen {
                                Some(Ok(v)) => Some(v),
                                Some(Err(e)) => return Err(format!("guard holds ill-formed value: {}", e)),
                                None => None,
                            };
                            if seen != model[*f] {
                                return Err("borrow_with guard does not show the original's value".into());
                            }
                            let res = g.set_field_value(field, v.to_lhs_unwrap());
                            let prev = model[*f].clone();
                            if check_set_result(res, Some(&w.env.fields[*f].ty), v, &prev, false)? {
                                model[*f] = Some(v.clone());
                            }
                        }
                    }
                    hs[cur].model = model;
                }
                Op::Take => {
                    let h = hs.remove(cur);
                    let moved = h.ctx.take_with(|_| ());
                    hs.insert(cur, Handle { ctx: moved, model: h.model });
                }
                Op::Exec => {
                    let lists = ListState::default();
                    let mut ev = Eval::new(w.env, &hs[cur].model, &lists);
                    let want = ev.filter(&w.filter_expr);
                    let ast = w.scheme.parse(&w.filter_text).map_err(|e| e.to_string())?;
                    let got = ast.compile().execute(&hs[cur].ctx);
                    match got {
                        Ok(b) if b == want => {}
                        other => return Err(format!("filter gave {:?}, reference says {}", other, want)),
                    }
                    // a value expression reads the field itself
                    for (fi, f) in w.env.fields.iter().enumerate() {
                        let v = w.scheme.parse_value(&f.name).map_err(|e| e.to_string())?.compile();
                        let r = v.execute(&hs[cur].ctx);
                        let got = match &r {
                            Ok(Ok(v)) => Some(RV::from_lhs(v)?),
                            Ok(Err(t)) => {
                                if RType::from_engine(*t) != f.ty {
                                    return Err("absence tagged with the wrong type".into());
                                }
                                None
                            }
                            Err(_) => return Err("scheme mismatch on own context".into()),
                        };
                        if got != hs[cur].model[fi] {
                            return Err(format!("value expression `{}` disagrees with the model", f.name));
                        }
                    }
                }
                Op::ExecForeign => {
                    let other = ExecutionContext::<()>::new(w.foreign);
                    let _ = take_call_log();
                    let ast = w.scheme.parse(&w.filter_text).map_err(|e| e.to_string())?;
                    if ast.compile().execute(&other).is_ok() {
                        return Err("filter executed against a context of a different scheme".into());
                    }
                    let v = w.scheme.parse_value("upper1(arr[0])").map_err(|e| e.to_string())?.compile();
                    if v.execute(&other).is_ok() {
                        return Err("value expression executed against a context of a different scheme".into());
                    }
                    // and the other way round
                    let ast2 = w.foreign.parse(&w.filter_text).map_err(|e| e.to_string())?;
                    if ast2.compile().execute(&hs[cur].ctx).is_ok() {
                        return Err("foreign filter executed against this context".into());
                    }
                    if !take_call_log().is_empty() {
                        return Err("a function was invoked during a scheme-mismatch execution".into());
                    }
                }
                Op::Compare => {
                    for a in 0..hs.len() {
                        for b in 0..hs.len() {
                            let eq = hs[a].ctx == hs[b].ctx;
                            let want = hs[a].model == hs[b].model;
                            if eq != want {
                                return Err(format!(
                                    "contexts #{} and #{} compare {} but their contents are {}",
                                    a,
                                    b,
                                    eq,
                                    if want { "equal" } else { "different" }
                                ));
                            }
                        }
                    }
                }
            }
            invariant(w, &hs)
        })();
        if let Err(e) = step {
            return Err((k, e));
        }
    }
    Ok(())
}

fn op_instances(env: &Env) -> Vec<Op> {
    let mut v = Vec::new();
    for f in 0..env.fields.len() {
        for val in value_pool(&env.fields[f].ty) {
            v.push(Op::Set(f, val));
        }
    }
    let good0 = value_pool(&env.fields[0].ty)[0].clone();
    let good1 = value_pool(&env.fields[1].ty)[0].clone();
    let bad1 = value_pool(&env.fields[1].ty)[2].clone();
    let alt0 = RV::Array(RType::Bytes, vec![RV::Bytes(b"second".to_vec())]);
    v.push(Op::Set(0, alt0.clone()));
    v.push(Op::SetByName("arr".into(), alt0.clone()));
    v.push(Op::SetByName("mai".into(), good0.clone())); // wrong type by name
    v.push(Op::SetByName("nosuch".into(), good0.clone()));
    v.push(Op::SetForeign(0, good0.clone()));
    v.push(Op::Clear);
    v.push(Op::CloneSwitch);
    v.push(Op::CloneKeep);
    v.push(Op::Borrow(vec![(0, alt0), (1, bad1)]));
    v.push(Op::Borrow(vec![(1, good1)]));
    v.push(Op::Take);
    v.push(Op::Exec);
    v.push(Op::ExecForeign);
    v.push(Op::Compare);
    v
}

fn report(run: &Run, fam: &str, i: u64, ops: &[Op], k: usize, e: String) {
    // signature: the failing operation kind + a digit-free form of the message
    let kind = show_op(&ops[k]);
    let kind = kind.split('(').next().unwrap_or("?").split(',').next().unwrap_or("?").to_string();
    let msg: String = e.chars().map(|c| if c.is_ascii_digit() { '#' } else { c }).take(90).collect();
    run.violation(
        &format!("C08/{}/{}", kind.trim(), msg),
        "typed-map-model",
        fam,
        i,
        json!({"history": ops.iter().map(show_op).collect::<Vec<_>>(), "failing_step": k, "problem": e}),
    );
}

pub fn run(run: &Run) {
    let seed = run.opts.seed;
    let env = small_env();
    let scheme = build_scheme(&env);
    let foreign = build_scheme(&env);
    let filter_expr = Expr::Quant(
        QOp::Any,
        QArg::Logical(Box::new(Expr::Cmp(
            Path {
                base: Base::Call(Box::new(Call {
                    func: env.func("upper1").unwrap(),
                    args: vec![Arg::Path(Path {
                        base: Base::Field(0),
                        idx: vec![Idx::Each],
                    })],
                })),
                idx: vec![Idx::Each],
            },
            CmpOp::Ord(OrdOp::Eq, Lit::Bytes(BytesLit::quoted(b"X".to_vec()))),
        ))),
    );
    let w = World {
        env: &env,
        scheme: &scheme,
        foreign: &foreign,
        filter_text: print_filter(&env, &filter_expr, None),
        filter_expr,
    };

    // ---- bounded-exhaustive histories over the small scheme
    let pool = op_instances(&env);
    let n = pool.len() as u64;
    let max_len = if run.opts.thorough() { 4 } else { 3 };
    let mut total = 0u64;
    let mut p = 1u64;
    for _ in 0..=max_len {
        total += p;
        p *= n;
    }
    run.exhaustive("histories", true);
    run.note("op_instances", json!(pool.len()));
    run.note("max_history_length", json!(max_len));
    run.parallel("histories", total, |i, l| {
        let mut x = i;
        let mut len = 0usize;
        let mut block = 1u64;
        while x >= block {
            x -= block;
            block *= n;
            len += 1;
        }
        let mut ops = Vec::with_capacity(len + 1);
        for _ in 0..len {
            ops.push(pool[(x % n) as usize].clone());
            x /= n;
        }
        // every history ends with a comparison of all live contexts
        ops.push(Op::Compare);
        match guard(|| run_history(&w, &ops, l)) {
            Ok(Ok(())) => {}
            Ok(Err((k, e))) => report(run, "histories", i, &ops, k, e),
            Err(p) => run.violation(
                &format!("C08/panic/{}", first_line(&p)),
                "no-panic",
                "histories",
                i,
                json!({"history": ops.iter().map(show_op).collect::<Vec<_>>(), "panic": p}),
            ),
        }
        if len >= 2 {
            run.distinct(i.wrapping_mul(0x9E37_79B9_7F4A_7C15));
        }
        if i % 9001 == 0 {
            run.sample("histories", 4, || json!(ops.iter().map(show_op).collect::<Vec<_>>()));
        }
    });

    // ---- long random histories over the rich scheme
    let renv = rich_env(0);
    let rscheme = build_scheme(&renv);
    let rforeign = build_scheme(&renv);
    let rfilter = {
        let mut g = FilterGen::new(&renv, GenCfg::full(), Rng::derive(seed, "c08-filter", 0));
        g.filter()
    };
    // the rich scheme has mandatory fields: executing needs them set, so the
    // random histories use a filter over optional fields only
    let opt_filter = Expr::Comb(
        LogOp::Or,
        vec![
            Expr::Cmp(Path::field(renv.field("num_o").unwrap()), CmpOp::Ord(OrdOp::Gt, Lit::Int(0))),
            Expr::Quant(
                QOp::Any,
                QArg::Logical(Box::new(Expr::Cmp(
                    Path {
                        base: Base::Field(renv.field("ll_num_o").unwrap()),
                        idx: vec![Idx::Each, Idx::Each],
                    },
                    CmpOp::Ord(OrdOp::Lt, Lit::Int(0)),
                ))),
            ),
        ],
    );
    let _ = rfilter;
    let rw = World {
        env: &renv,
        scheme: &rscheme,
        foreign: &rforeign,
        filter_text: print_filter(&renv, &opt_filter, None),
        filter_expr: opt_filter,
    };
    let nr = run.opts.size(30_000, 1_500_000);
    run.parallel("random", nr, |i, l| {
        let mut r = Rng::derive(seed, "c08-r", i);
        let len = r.range(20, 80);
        let nf = renv.fields.len();
        let mut ops = Vec::new();
        for _ in 0..len {
            let f = r.below(nf);
            let good = gen_value(&mut r, &renv.fields[f].ty);
            let bad = {
                let g = r.below(nf);
                gen_value(&mut r, &renv.fields[g].ty)
            };
            ops.push(match r.below(16) {
                0..=4 => Op::Set(f, good),
                5 => Op::Set(f, bad),
                6 => Op::SetByName(renv.fields[f].name.clone(), good),
                7 => Op::SetByName(format!("{}x", renv.fields[f].name), good),
                8 => Op::SetForeign(f, good),
                9 => Op::Clear,
                10 => Op::CloneSwitch,
                11 => Op::CloneKeep,
                12 => Op::Borrow(vec![(f, good), (r.below(nf), bad)]),
                13 => Op::Take,
                14 => Op::Compare,
                _ => Op::Get(f),
            });
        }
        // keep the number of live clones bounded
        let mut clones = 0;
        ops.retain(|o| {
            if matches!(o, Op::CloneSwitch | Op::CloneKeep) {
                clones += 1;
                clones <= 4
            } else {
                true
            }
        });
        let _ = &rw.filter_text;
        match guard(|| run_history(&rw, &ops, l)) {
            Ok(Ok(())) => {}
            Ok(Err((k, e))) => report(run, "random", i, &ops, k, e),
            Err(p) => run.violation(
                &format!("C08/panic/{}", first_line(&p)),
                "no-panic",
                "random",
                i,
                json!({"history_len": ops.len(), "panic": p}),
            ),
        }
        run.distinct(hash_str(&format!("r{}", i)));
    });

    // ---- constructors only build homogeneous containers; typed wrappers
    let nc = run.opts.size(30_000, 2_000_000);
    run.parallel("constructors", nc, |i, l| {
        let mut r = Rng::derive(seed, "c08-c", i);
        let decl = gen_type(&mut r, 2);
        let n = r.below(5);
        let mut elems: Vec<RV> = (0..n).map(|_| gen_value(&mut r, &decl)).collect();
        let mut homogeneous = true;
        if n > 0 && r.bool() {
            let other = loop {
                let t = gen_type(&mut r, 2);
                if t != decl {
                    break t;
                }
            };
            let k = r.below(n);
            elems[k] = gen_value(&mut r, &other);
            homogeneous = false;
        }
        l.evals += 1;
        let lhs: Vec<LhsValue<'static>> = elems.iter().map(|e| e.to_lhs_unwrap()).collect();
        let a1 = Array::try_from_iter(decl.to_engine(), lhs.clone());
        let a2 = Array::try_from_vec(decl.to_engine(), lhs.clone());
        let m1 = Map::try_from_iter::<TypeMismatchError, _>(
            decl.to_engine(),
            lhs.iter()
                .enumerate()
                .map(|(k, v)| Ok((format!("k{}", k).into_bytes().into_boxed_slice(), v.clone()))),
        );
        for (name, ok, well_formed) in [
            ("Array::try_from_iter", a1.is_ok(), a1.as_ref().ok().map(|a| RV::from_lhs(&LhsValue::Array(a.clone())).is_ok())),
            ("Array::try_from_vec", a2.is_ok(), a2.as_ref().ok().map(|a| RV::from_lhs(&LhsValue::Array(a.clone())).is_ok())),
            ("Map::try_from_iter", m1.is_ok(), m1.as_ref().ok().map(|m| RV::from_lhs(&LhsValue::Map(m.clone())).is_ok())),
        ] {
            if ok != homogeneous || well_formed == Some(false) {
                run.violation(
                    &format!("C08/constructor/{}/{}", name, if homogeneous { "rejects-homogeneous" } else { "accepts-heterogeneous" }),
                    "homogeneous-containers",
                    "constructors",
                    i,
                    json!({"declared_element": decl.short(), "elements": elems.iter().map(|e| e.ty().short()).collect::<Vec<_>>()}),
                );
            }
        }
        if !homogeneous {
            l.count("heterogeneous_inputs");
        }
        run.distinct(hash_str(&format!("c{}", i)));
    });

    // typed wrappers (the `transmute`-based accessors): build, read back, store
    let nt = run.opts.size(5_000, 200_000);
    run.parallel("typed", nt, |i, l| {
        let mut r = Rng::derive(seed, "c08-t", i);
        l.evals += 1;
        let res = guard(|| -> Result<(), String> {
            let mut outer: TypedArray<'static, TypedArray<'static, i64>> = TypedArray::new();
            let mut expect: Vec<Vec<i64>> = Vec::new();
            for _ in 0..r.below(5) {
                let inner: Vec<i64> = (0..r.below(4)).map(|_| gen_int(&mut r)).collect();
                outer.push(inner.iter().copied().collect());
                expect.push(inner);
            }
            for (k, e) in expect.iter().enumerate() {
                let got = outer.get(k).ok_or("typed get: missing")?;
                if got.len() != e.len() || *got != *e {
                    return Err("TypedArray::get returned different contents".into());
                }
            }
            if let Some(first) = outer.get_mut(0) {
                first.push(42);
                expect[0].push(42);
            }
            if outer.get(expect.len()).is_some() {
                return Err("TypedArray::get out of range returned Some".into());
            }
            let mut tm: TypedMap<'static, TypedArray<'static, i64>> = TypedMap::new();
            tm.insert(b"a".to_vec().into_boxed_slice(), [1i64, 2].into_iter().collect());
            tm.get_or_insert(b"b".to_vec().into_boxed_slice(), TypedArray::new()).push(9);
            if tm.get(b"b").map(|a| a.len()) != Some(1) || tm.get(b"zz").is_some() {
                return Err("TypedMap::get/get_or_insert disagree".into());
            }
            if let Some(a) = tm.get_mut(b"a") {
                a.push(3);
            }
            let lv: LhsValue<'static> = outer.into();
            let rv = RV::from_lhs(&lv)?;
            let want = RV::Array(
                RType::arr(RType::Int),
                expect
                    .iter()
                    .map(|e| RV::Array(RType::Int, e.iter().map(|x| RV::Int(*x)).collect()))
                    .collect(),
            );
            if rv != want {
                return Err("typed array converts to a different value".into());
            }
            let lm: LhsValue<'static> = tm.into();
            let rm = RV::from_lhs(&lm)?;
            if rm.ty() != RType::map(RType::arr(RType::Int)) {
                return Err("typed map converts to a different type".into());
            }
            // store both in a context of a matching scheme
            let mut b = wirefilter::SchemeBuilder::new();
            b.add_field("aa", Type::Array(Type::Array(Type::Int.into()).into())).unwrap();
            b.add_field("ma", Type::Map(Type::Array(Type::Int.into()).into())).unwrap();
            let s = b.build();
            let mut ctx = ExecutionContext::<()>::new(&s);
            ctx.set_field_value(s.get_field("aa").unwrap(), lv).map_err(|e| e.to_string())?;
            ctx.set_field_value(s.get_field("ma").unwrap(), lm).map_err(|e| e.to_string())?;
            let f = s.parse("any(aa[*][*] == 42) or ma[\"a\"][2] == 3").map_err(|e| e.to_string())?.compile();
            let got = f.execute(&ctx).map_err(|e| e.to_string())?;
            let want = expect.iter().any(|e| e.contains(&42)) || true;
            if got != want {
                return Err("filter over typed values disagrees".into());
            }
            Ok(())
        });
        match res {
            Ok(Ok(())) => {}
            Ok(Err(e)) => run.violation(&format!("C08/typed-wrappers/{}", e), "typed-wrappers", "typed", i, json!({"problem": e})),
            Err(p) => run.violation(&format!("C08/typed-wrappers-panic/{}", first_line(&p)), "no-panic", "typed", i, json!({"panic": p})),
        }
        // every nesting of the typed containers
        for (name, res) in typed_nestings(&mut r) {
            l.evals += 1;
            match guard(|| res) {
                Ok(Ok(())) => l.count("typed_nestings_ok"),
                Ok(Err(e)) => run.violation(
                    &format!("C08/typed-wrappers/nesting/{}", e.chars().map(|c| if c.is_ascii_digit() { '#' } else { c }).take(70).collect::<String>()),
                    "typed-wrappers",
                    "typed",
                    i,
                    json!({"static_type": name, "problem": e}),
                ),
                Err(p) => run.violation(&format!("C08/typed-wrappers-panic/{}", first_line(&p)), "no-panic", "typed", i, json!({"panic": p})),
            }
        }
        run.distinct(hash_str(&format!("t{}", i)));
    });
}

/// A statically typed value must say (through the type of the converted value
/// and the element types declared inside it) exactly the nested
/// type it is, be accepted by a field of that type and refused by a field of
/// any other type.
fn check_typed_value<V: Into<LhsValue<'static>>>(v: V, want: &RType, others: &[RType]) -> Result<(), String> {
    let lv: LhsValue<'static> = v.into();
    if lv.get_type() != want.to_engine() {
        return Err(format!("converted value reports type {:?} instead of {}", lv.get_type(), want.short()));
    }
    let rv = RV::from_lhs(&lv).map_err(|e| format!("converted {}: {}", want.short(), e))?;
    if rv.ty() != *want {
        return Err(format!("converted value is a {} instead of a {}", rv.ty().short(), want.short()));
    }
    let mut b = wirefilter::SchemeBuilder::new();
    b.add_field("right", want.to_engine()).unwrap();
    for (k, o) in others.iter().enumerate() {
        b.add_field(&format!("other{}", k), o.to_engine()).unwrap();
    }
    let s = b.build();
    let mut ctx = ExecutionContext::<()>::new(&s);
    for k in 0..others.len() {
        if others[k] == *want {
            continue;
        }
        let f = s.get_field(&format!("other{}", k)).unwrap();
        if ctx.set_field_value(f, lv.clone()).is_ok() {
            return Err(format!("a {} was accepted by a field of type {}", want.short(), others[k].short()));
        }
        if ctx.get_field_value(f).is_some() {
            return Err("a refused set stored something".into());
        }
    }
    let f = s.get_field("right").unwrap();
    ctx.set_field_value(f, lv).map_err(|e| format!("a {} was refused by a field of its own type: {}", want.short(), e))?;
    match ctx.get_field_value(f).map(RV::from_lhs) {
        Some(Ok(back)) if back == rv => Ok(()),
        other => Err(format!("stored {} reads back as {:?}", want.short(), other.map(|r| r.map(|v| v.ty().short())))),
    }
}

fn key(s: &str) -> Box<[u8]> {
    s.as_bytes().to_vec().into_boxed_slice()
}

/// Every nesting of the two typed containers up to depth 3 over two element
/// types (written out: the element type is a compile-time parameter).
fn typed_nestings(r: &mut Rng) -> Vec<(String, Result<(), String>)> {
    use RType::{Bool, Int};
    let a = RType::arr;
    let m = RType::map;
    let others = vec![
        a(Int), m(Int), a(Bool), m(Bool), a(a(Int)), a(m(Int)), m(a(Int)), m(m(Int)), a(a(Bool)), a(m(Bool)), m(a(Bool)), m(m(Bool)),
        a(a(a(Int))), a(a(m(Int))), a(m(a(Int))), a(m(m(Int))), m(a(a(Int))), m(a(m(Int))), m(m(a(Int))), m(m(m(Int))),
    ];
    let x = gen_int(r);
    let t = r.bool();
    type A<T> = TypedArray<'static, T>;
    type M<T> = TypedMap<'static, T>;
    let ai = || -> A<i64> { [x, 1].into_iter().collect() };
    let mi = || -> M<i64> { [(key("k"), x)].into_iter().collect() };
    let ab = || -> A<bool> { [t].into_iter().collect() };
    let mb = || -> M<bool> { [(key("k"), t)].into_iter().collect() };
    let mut out: Vec<(String, Result<(), String>)> = Vec::new();
    macro_rules! case {
        ($v:expr, $t:expr) => {{
            let want: RType = $t;
            out.push((want.short(), check_typed_value($v, &want, &others)));
        }};
    }
    case!(ai(), a(Int));
    case!(mi(), m(Int));
    case!(ab(), a(Bool));
    case!(mb(), m(Bool));
    case!([ai(), A::new()].into_iter().collect::<A<A<i64>>>(), a(a(Int)));
    case!([mi()].into_iter().collect::<A<M<i64>>>(), a(m(Int)));
    case!([(key("a"), ai())].into_iter().collect::<M<A<i64>>>(), m(a(Int)));
    case!([(key("a"), mi()), (key("b"), M::new())].into_iter().collect::<M<M<i64>>>(), m(m(Int)));
    case!([ab()].into_iter().collect::<A<A<bool>>>(), a(a(Bool)));
    case!([mb(), M::new()].into_iter().collect::<A<M<bool>>>(), a(m(Bool)));
    case!([(key("a"), ab())].into_iter().collect::<M<A<bool>>>(), m(a(Bool)));
    case!([(key("a"), mb())].into_iter().collect::<M<M<bool>>>(), m(m(Bool)));
    case!([[ai()].into_iter().collect::<A<A<i64>>>()].into_iter().collect::<A<A<A<i64>>>>(), a(a(a(Int))));
    case!([[mi()].into_iter().collect::<A<M<i64>>>()].into_iter().collect::<A<A<M<i64>>>>(), a(a(m(Int))));
    case!([[(key("a"), ai())].into_iter().collect::<M<A<i64>>>()].into_iter().collect::<A<M<A<i64>>>>(), a(m(a(Int))));
    case!([[(key("a"), mi())].into_iter().collect::<M<M<i64>>>()].into_iter().collect::<A<M<M<i64>>>>(), a(m(m(Int))));
    case!([(key("z"), [ai()].into_iter().collect::<A<A<i64>>>())].into_iter().collect::<M<A<A<i64>>>>(), m(a(a(Int))));
    case!([(key("z"), [mi()].into_iter().collect::<A<M<i64>>>())].into_iter().collect::<M<A<M<i64>>>>(), m(a(m(Int))));
    case!([(key("z"), [(key("a"), ai())].into_iter().collect::<M<A<i64>>>())].into_iter().collect::<M<M<A<i64>>>>(), m(m(a(Int))));
    case!([(key("z"), [(key("a"), mi())].into_iter().collect::<M<M<i64>>>())].into_iter().collect::<M<M<M<i64>>>>(), m(m(m(Int))));
    // empty outer containers say their type too
    case!(A::<M<i64>>::new(), a(m(Int)));
    case!(M::<M<A<bool>>>::new(), m(m(a(Bool))));
    out
}

pub fn gen_type(r: &mut Rng, max_depth: usize) -> RType {
    let d = r.below(max_depth + 1);
    let mut t = PRIMS[r.below(4)].clone();
    for _ in 0..d {
        t = if r.bool() { RType::arr(t) } else { RType::map(t) };
    }
    t
}
