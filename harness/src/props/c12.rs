//! C12 — uses() and uses_list() report field usage exactly.

use super::common::*;
use crate::ast::*;
use crate::gen::*;
use crate::printer::{print_filter, print_value_expr};
use crate::prng::Rng;
use crate::refsem::{uses_expr, uses_value};
use crate::report::{guard, hash_str, Local, Run};
use crate::rv::RType;
use serde_json::json;
use std::collections::BTreeSet;

fn cfg() -> GenCfg {
    GenCfg {
        regex: false,
        ..GenCfg::full()
    }
}

fn unknown_names(env: &Env) -> Vec<String> {
    let mut v: Vec<String> = vec![
        "".into(),
        "nosuchfield".into(),
        "num".into(),
        "num_".into(),
        "num_m2".into(),
        "NUM_M".into(),
        "http".into(),
        "http.hos".into(),
        "http.host.x".into(),
        "req.port".into(),
        " num_m".into(),
        "num_m ".into(),
        "num_m[0]".into(),
        "$a".into(),
    ];
    for f in env.funcs.iter().take(6) {
        v.push(f.name.clone());
    }
    v
}

enum Ast {
    F(wirefilter::FilterAst),
    V(wirefilter::FilterValueAst),
}

impl Ast {
    fn uses(&self, n: &str) -> Result<bool, ()> {
        match self {
            Ast::F(a) => a.uses(n).map_err(|_| ()),
            Ast::V(a) => a.uses(n).map_err(|_| ()),
        }
    }
    fn uses_list(&self, n: &str) -> Result<bool, ()> {
        match self {
            Ast::F(a) => a.uses_list(n).map_err(|_| ()),
            Ast::V(a) => a.uses_list(n).map_err(|_| ()),
        }
    }
}

#[allow(clippy::too_many_arguments)]
fn check_usage(
    run: &Run,
    l: &mut Local,
    fam: &str,
    i: u64,
    eng: &Eng,
    ast: &Ast,
    text: &str,
    used: &BTreeSet<usize>,
    used_list: &BTreeSet<usize>,
) {
    for (fi, f) in eng.env.fields.iter().enumerate() {
        l.evals += 1;
        let want = used.contains(&fi);
        let want_list = used_list.contains(&fi);
        match guard(|| (ast.uses(&f.name), ast.uses_list(&f.name))) {
            Ok((Ok(u), Ok(ul))) => {
                if u != want {
                    run.violation(
                        &format!("C12/uses-wrong/expected-{}", want),
                        "uses",
                        fam,
                        i,
                        json!({"text": text, "field": f.name, "expected": want, "got": u}),
                    );
                }
                if ul != want_list {
                    run.violation(
                        &format!("C12/uses_list-wrong/expected-{}", want_list),
                        "uses_list",
                        fam,
                        i,
                        json!({"text": text, "field": f.name, "expected": want_list, "got": ul}),
                    );
                }
                if want {
                    l.count("field_used");
                }
                if want_list {
                    l.count("field_used_in_list");
                }
            }
            Ok(other) => run.violation(
                "C12/known-field-gives-error",
                "uses",
                fam,
                i,
                json!({"text": text, "field": f.name, "outcome": format!("{:?}", other)}),
            ),
            Err(p) => run.violation(
                &format!("C12/panic/{}", first_line(&p)),
                "no-panic",
                fam,
                i,
                json!({"text": text, "field": f.name, "panic": p}),
            ),
        }
    }
    for n in unknown_names(&eng.env) {
        l.evals += 1;
        match guard(|| (ast.uses(&n), ast.uses_list(&n))) {
            Ok((Err(()), Err(()))) => {}
            Ok(other) => run.violation(
                "C12/unknown-name-accepted",
                "unknown-name-is-error",
                fam,
                i,
                json!({"text": text, "name": n, "outcome": format!("{:?}", other)}),
            ),
            Err(p) => run.violation(
                &format!("C12/panic/{}", first_line(&p)),
                "no-panic",
                fam,
                i,
                json!({"text": text, "name": n, "panic": p}),
            ),
        }
    }
}

/// Expressions in which `target` occurs exactly once, in a chosen position.
fn directed(env: &Env, target: usize, r: &mut Rng) -> Option<(Expr, &'static str)> {
    let t = &env.fields[target].ty;
    // path from the target field down to a scalar
    let mut idx = Vec::new();
    let mut cur = t.clone();
    let mut each = false;
    while let Some(e) = cur.elem() {
        let i = match (&cur, r.below(3)) {
            (_, 0) => {
                each = true;
                Idx::Each
            }
            (RType::Array(_), _) => Idx::Arr(r.below(3) as u32),
            (RType::Map(_), _) => Idx::Key(r.pick(&FILTER_KEYS).to_string()),
            _ => unreachable!(),
        };
        idx.push(i);
        cur = e.clone();
    }
    let scalar = cur;
    let path = Path {
        base: Base::Field(target),
        idx,
    };
    let mut g = FilterGen::new(env, GenCfg::scalar_only(), Rng::new(r.next()));
    let fname = |n: &str| env.func(n).unwrap();
    let wrap = |e: Expr| -> Expr {
        if each {
            Expr::Quant(QOp::Any, QArg::Logical(Box::new(e)))
        } else {
            e
        }
    };
    let ident_fn = match scalar {
        RType::Bytes => "ids1",
        RType::Int => "idn1",
        RType::Ip => "idi1",
        RType::Bool => "idt1",
        _ => unreachable!(),
    };
    let call1 = |p: Path, f: &str| Path {
        base: Base::Call(Box::new(Call {
            func: fname(f),
            args: vec![Arg::Path(p)],
        })),
        idx: if each { vec![Idx::Each] } else { vec![] },
    };
    let kind = r.below(12);
    Some(match kind {
        0 => (wrap(Expr::Cmp(path, g.cmp_op(&scalar))), "lhs"),
        1 => (
            wrap(Expr::Cmp(call1(path, ident_fn), g.cmp_op(&scalar))),
            "call-arg-1",
        ),
        2 => {
            // nested calls, depth 2..3
            let p1 = call1(path, ident_fn);
            let f2 = match scalar {
                RType::Bytes => "upper1",
                RType::Int => "keepeven1",
                RType::Ip => "idi2",
                RType::Bool => "neg1",
                _ => unreachable!(),
            };
            let p2 = Path {
                base: Base::Call(Box::new(Call {
                    func: fname(f2),
                    args: vec![Arg::Path(p1)],
                })),
                idx: if each { vec![Idx::Each] } else { vec![] },
            };
            (wrap(Expr::Cmp(p2, g.cmp_op(&scalar))), "nested-call")
        }
        3 if scalar == RType::Bytes && !each => {
            let c = Call {
                func: fname("glue1"),
                args: vec![
                    Arg::Path(Path::field(env.field("str_m").unwrap())),
                    Arg::Lit(Lit::Bytes(BytesLit::quoted(b"x".to_vec()))),
                    Arg::Path(path),
                ],
            };
            (
                Expr::Cmp(
                    Path {
                        base: Base::Call(Box::new(c)),
                        idx: vec![],
                    },
                    g.cmp_op(&RType::Bytes),
                ),
                "call-arg-3",
            )
        }
        3 if scalar == RType::Int && !each => {
            let c = Call {
                func: fname("sum1"),
                args: vec![
                    Arg::Path(Path::field(env.field("num_m").unwrap())),
                    Arg::Path(path),
                ],
            };
            (
                Expr::Cmp(
                    Path {
                        base: Base::Call(Box::new(c)),
                        idx: vec![],
                    },
                    g.cmp_op(&RType::Int),
                ),
                "call-arg-2",
            )
        }
        4 if !each => {
            // inside a parenthesised logical argument
            let inner = Expr::paren(Expr::Cmp(path, g.cmp_op(&scalar)));
            let c = Call {
                func: fname("neg1"),
                args: vec![Arg::Logical(inner)],
            };
            (
                Expr::Cmp(
                    Path {
                        base: Base::Call(Box::new(c)),
                        idx: vec![],
                    },
                    CmpOp::IsTrue,
                ),
                "logical-argument",
            )
        }
        5 if scalar != RType::Bool && env.has_list(&scalar) => (
            wrap(Expr::Cmp(path, CmpOp::InList(r.pick(&LIST_NAMES).to_string()))),
            "list-lhs",
        ),
        6 if scalar != RType::Bool && env.has_list(&scalar) => (
            wrap(Expr::Cmp(
                call1(path, ident_fn),
                CmpOp::InList(r.pick(&LIST_NAMES).to_string()),
            )),
            "list-lhs-inside-call",
        ),
        7 if scalar != RType::Bool && env.has_list(&scalar) && !each => {
            // a list comparison nested inside a call argument
            let inner = Expr::Cmp(path, CmpOp::InList(r.pick(&LIST_NAMES).to_string()));
            let c = Call {
                func: fname("neg1"),
                args: vec![Arg::Logical(inner)],
            };
            (
                Expr::Cmp(
                    Path {
                        base: Base::Call(Box::new(c)),
                        idx: vec![],
                    },
                    CmpOp::IsTrue,
                ),
                "list-inside-call-argument",
            )
        }
        8 if *t == RType::bool_arr() => (
            Expr::Quant(QOp::All, QArg::Path(Path::field(target))),
            "quantifier-path",
        ),
        9 | 10 | 11 if scalar != RType::Bool && env.has_list(&scalar) && !each => {
            // a list comparison whose left-hand side is a call that has ANOTHER
            // list comparison in its first argument:
            //   pick((other in $l1), target) in $l2     (9: target after the nested comparison)
            //   pick((target in $l1), other) in $l2     (10: target inside the nested comparison)
            //   pick((other in $l1), ids(target)) in $l2 (11: after it, one call deeper)
            let pick = match scalar {
                RType::Bytes => "pickb1",
                RType::Int => "pickn1",
                RType::Ip => "picki1",
                _ => unreachable!(),
            };
            let other_name = match scalar {
                RType::Bytes => "str_o",
                RType::Int => "num_o",
                _ => "ipa_o",
            };
            let other = Path::field(env.field(other_name).unwrap());
            if other.base == Base::Field(target) {
                return None;
            }
            let (nested_lhs, second, position) = match kind {
                9 => (other, Arg::Path(path), "list-lhs-after-nested-list-comparison"),
                10 => (path, Arg::Path(other), "nested-list-comparison-inside-list-lhs"),
                _ => (other, Arg::Path(call1(path, ident_fn)), "list-lhs-call-after-nested-list-comparison"),
            };
            let inner = Expr::paren(Expr::Cmp(nested_lhs, CmpOp::InList(r.pick(&LIST_NAMES).to_string())));
            let c = Call {
                func: fname(pick),
                args: vec![Arg::Logical(inner), second],
            };
            (
                Expr::Cmp(
                    Path {
                        base: Base::Call(Box::new(c)),
                        idx: vec![],
                    },
                    CmpOp::InList(r.pick(&LIST_NAMES).to_string()),
                ),
                position,
            )
        }
        _ => return None,
    })
}

pub fn run(run: &Run) {
    let envs: Vec<Eng> = (0..2).map(|v| Eng::new(rich_env(v))).collect();
    let seed = run.opts.seed;

    let n = run.opts.size(60_000, 2_000_000);
    run.parallel("random", n, |i, l| {
        let mut r = Rng::derive(seed, "c12-r", i);
        let eng = &envs[r.below(envs.len())];
        let mut g = FilterGen::new(&eng.env, cfg(), Rng::derive(seed, "c12-g", i));
        let expr = g.filter();
        let text = print_filter(&eng.env, &expr, Some(Rng::derive(seed, "c12-p", i)));
        let ast = match guard(|| eng.scheme.parse(&text).map_err(|e| e.to_string())) {
            Ok(Ok(a)) => Ast::F(a),
            other => {
                run.violation(
                    "C12/generated-filter-rejected",
                    "parses",
                    "random",
                    i,
                    json!({"text": text, "outcome": format!("{:?}", other.map(|r| r.map(|_| ())))}),
                );
                return;
            }
        };
        let (mut u, mut ul) = (BTreeSet::new(), BTreeSet::new());
        uses_expr(&expr, &mut u, &mut ul);
        check_usage(run, l, "random", i, eng, &ast, &text, &u, &ul);
        if !u.is_empty() {
            run.distinct(hash_str(&text));
        }
        if i % 1501 == 0 {
            run.sample("random", 3, || json!({"filter": text, "fields_used": u.len(), "fields_used_in_lists": ul.len()}));
        }
    });

    let n = run.opts.size(60_000, 2_000_000);
    run.parallel("directed", n, |i, l| {
        let mut r = Rng::derive(seed, "c12-d", i);
        let eng = &envs[r.below(envs.len())];
        let target = r.below(eng.env.fields.len());
        let Some((tmpl, position)) = directed(&eng.env, target, &mut r) else {
            l.count("no_template_for_target");
            return;
        };
        // surroundings that do not mention the target
        let mut others = Vec::new();
        for k in 0..r.below(3) {
            for attempt in 0..8 {
                let mut g = FilterGen::new(&eng.env, cfg(), Rng::derive(seed, "c12-dg", i * 64 + k as u64 * 8 + attempt));
                let e = g.filter();
                let (mut u, mut ul) = (BTreeSet::new(), BTreeSet::new());
                uses_expr(&e, &mut u, &mut ul);
                if !u.contains(&target) {
                    others.push(Expr::paren(e));
                    break;
                }
            }
        }
        let pos = r.below(others.len() + 1);
        others.insert(pos, tmpl);
        let expr = if others.len() == 1 {
            others.pop().unwrap()
        } else {
            Expr::Comb(*r.pick(&LOG_OPS), others)
        }
        .normalize();
        let text = print_filter(&eng.env, &expr, Some(Rng::derive(seed, "c12-dp", i)));
        let ast = match guard(|| eng.scheme.parse(&text).map_err(|e| e.to_string())) {
            Ok(Ok(a)) => Ast::F(a),
            other => {
                run.violation(
                    &format!("C12/directed-filter-rejected/{}", position),
                    "parses",
                    "directed",
                    i,
                    json!({"text": text, "outcome": format!("{:?}", other.map(|r| r.map(|_| ())))}),
                );
                return;
            }
        };
        let (mut u, mut ul) = (BTreeSet::new(), BTreeSet::new());
        uses_expr(&expr, &mut u, &mut ul);
        assert!(u.contains(&target));
        check_usage(run, l, "directed", i, eng, &ast, &text, &u, &ul);
        l.count(match position {
            "lhs" => "pos_lhs",
            "call-arg-1" => "pos_call_arg_1",
            "nested-call" => "pos_nested_call",
            "call-arg-2" => "pos_call_arg_2",
            "call-arg-3" => "pos_call_arg_3",
            "logical-argument" => "pos_logical_argument",
            "list-lhs" => "pos_list_lhs",
            "list-lhs-inside-call" => "pos_list_lhs_inside_call",
            "list-inside-call-argument" => "pos_list_inside_call_argument",
            "list-lhs-after-nested-list-comparison" => "pos_list_lhs_after_nested_list_comparison",
            "nested-list-comparison-inside-list-lhs" => "pos_nested_list_comparison_inside_list_lhs",
            "list-lhs-call-after-nested-list-comparison" => "pos_list_lhs_call_after_nested_list_comparison",
            _ => "pos_quantifier_path",
        });
        run.distinct(hash_str(&text));
        if i % 1201 == 0 {
            run.sample("directed", 4, || json!({"filter": text, "target": eng.env.fields[target].name, "position": position}));
        }
    });

    // ---- wide schemes: the answer may not depend on how many fields the scheme has or on
    // the index of the queried field (63/64/65, 127/128/129, 255/256/257 ... are where
    // per-field bitmaps and small-index fast paths end)
    const WIDTHS: [usize; 16] = [1, 2, 31, 32, 33, 63, 64, 65, 66, 127, 128, 129, 200, 256, 257, 600];
    let wide: Vec<(wirefilter::Scheme, usize)> = WIDTHS
        .iter()
        .map(|&w| {
            let mut b = wirefilter::SchemeBuilder::new();
            for k in 0..w {
                let t = match k % 4 {
                    0 => wirefilter::Type::Int,
                    1 => wirefilter::Type::Bytes,
                    2 => wirefilter::Type::Bool,
                    _ => wirefilter::Type::Array(wirefilter::Type::Int.into()),
                };
                if k % 3 == 0 {
                    b.add_optional_field(format!("w.f{}", k), t).expect("wide scheme field");
                } else {
                    b.add_field(format!("w.f{}", k), t).expect("wide scheme field");
                }
            }
            b.add_list(wirefilter::Type::Int, wirefilter::AlwaysList {}).expect("wide scheme list");
            b.add_list(wirefilter::Type::Bytes, wirefilter::NeverList {}).expect("wide scheme list");
            (b.build(), w)
        })
        .collect();
    let n = run.opts.size(2_400, 80_000);
    run.parallel("wide-schemes", n, |i, l| {
        let mut r = Rng::derive(seed, "c12-wide", i);
        let (scheme, w) = &wide[(i as usize) % wide.len()];
        let w = *w;
        // 1..5 distinct fields, biased to the last ones and to the bitmap boundaries
        let mut picks: Vec<usize> = Vec::new();
        for _ in 0..1 + r.below(5) {
            let k = match r.below(6) {
                0 => w - 1,
                1 => w.saturating_sub(2),
                2 => [63usize, 64, 65, 127, 128, 129, 255, 256][r.below(8)].min(w - 1),
                3 => 0,
                _ => r.below(w),
            };
            if !picks.contains(&k) {
                picks.push(k);
            }
        }
        let mut used = BTreeSet::new();
        let mut used_list = BTreeSet::new();
        let mut atoms: Vec<String> = Vec::new();
        for &k in &picks {
            let name = format!("w.f{}", k);
            used.insert(k);
            let in_list = r.chance(1, 3);
            atoms.push(match k % 4 {
                0 if in_list => {
                    used_list.insert(k);
                    format!("{} in $lst.a", name)
                }
                0 => [format!("{} == {}", name, k), format!("{} in {{1 2..5}}", name), format!("{} & 3", name)][r.below(3)].clone(),
                1 if in_list => {
                    used_list.insert(k);
                    format!("{} in $b", name)
                }
                1 => [format!("{} contains \"a\"", name), format!("{} != \"x\"", name)][r.below(2)].clone(),
                2 => [name.clone(), format!("not {}", name), format!("({})", name)][r.below(3)].clone(),
                _ if in_list => {
                    used_list.insert(k);
                    format!("any({}[*] in $lst.a)", name)
                }
                _ => [format!("any({}[*] == 1)", name), format!("{}[0] > 2", name), format!("all({}[*] in {{1 2}})", name)][r.below(3)].clone(),
            });
        }
        let mut text = atoms[0].clone();
        for a in &atoms[1..] {
            text.push_str([" and ", " or ", " xor ", " && "][r.below(4)]);
            text.push_str(a);
        }
        let ast = match guard(|| scheme.parse(&text).map_err(|e| e.to_string())) {
            Ok(Ok(a)) => a,
            other => {
                run.violation(
                    "C12/generated-filter-rejected/wide",
                    "parses",
                    "wide-schemes",
                    i,
                    json!({"text": text, "fields": w, "outcome": format!("{:?}", other.map(|r| r.map(|_| ())))}),
                );
                return;
            }
        };
        for k in 0..w {
            l.evals += 1;
            let name = format!("w.f{}", k);
            let (want, want_list) = (used.contains(&k), used_list.contains(&k));
            match guard(|| (ast.uses(&name).map_err(|_| ()), ast.uses_list(&name).map_err(|_| ()))) {
                Ok((Ok(u), Ok(ul))) if u == want && ul == want_list => {
                    if want && k >= 64 {
                        l.count("wide_used_field_index_ge_64");
                    }
                }
                other => run.violation(
                    &format!("C12/wide-scheme/uses-or-uses_list-wrong/expected-{}-{}", want, want_list),
                    "uses",
                    "wide-schemes",
                    i,
                    json!({"text": text, "fields": w, "field": name, "index": k, "expected_uses": want, "expected_uses_list": want_list,
                           "outcome": format!("{:?}", other)}),
                ),
            }
        }
        for bad in [format!("w.f{}", w), "w.f".to_string(), "w".to_string(), format!("w.f{}x", w - 1), "W.F0".to_string()] {
            l.evals += 1;
            if !matches!(guard(|| (ast.uses(&bad).is_err(), ast.uses_list(&bad).is_err())), Ok((true, true))) {
                run.violation("C12/unknown-name-accepted/wide", "unknown-name-is-error", "wide-schemes", i, json!({"text": text, "name": bad}));
            }
        }
        run.distinct(hash_str(&format!("{}|{}", w, text)));
        if i % 499 == 0 {
            run.sample("wide-schemes", 3, || json!({"fields": w, "filter": text}));
        }
    });

    let n = run.opts.size(30_000, 1_000_000);
    run.parallel("values", n, |i, l| {
        let mut r = Rng::derive(seed, "c12-v", i);
        let eng = &envs[r.below(envs.len())];
        let mut g = FilterGen::new(&eng.env, cfg(), Rng::derive(seed, "c12-vg", i));
        let path = if r.bool() {
            g.value_expr()
        } else {
            let t = r.pick(&PRIMS).clone();
            g.value_call_expr(&t)
        };
        let Some(path) = path else { return };
        let text = print_value_expr(&eng.env, &path, Some(Rng::derive(seed, "c12-vp", i)));
        let ast = match guard(|| eng.scheme.parse_value(&text).map_err(|e| e.to_string())) {
            Ok(Ok(a)) => Ast::V(a),
            other => {
                run.violation(
                    "C12/generated-value-rejected",
                    "parses",
                    "values",
                    i,
                    json!({"text": text, "outcome": format!("{:?}", other.map(|r| r.map(|_| ())))}),
                );
                return;
            }
        };
        let (mut u, mut ul) = (BTreeSet::new(), BTreeSet::new());
        uses_value(&path, &mut u, &mut ul);
        check_usage(run, l, "values", i, eng, &ast, &text, &u, &ul);
        run.distinct(hash_str(&text));
    });
}
