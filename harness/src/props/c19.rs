//! C19 — the panic catcher returns results or panic text and never leaks state.
//!
//! The worker installs a *sentinel* panic hook first (records the panics that
//! reach it, per thread) and the catcher's hook on top of it. Programs over
//! {enable, disable, enter catch_panic, return, panic, install hook again, set
//! fallback Continue, query backtrace} are executed for real, each on a fresh
//! thread, and every observation is compared with an abstract model.

use crate::prng::Rng;
use crate::report::{hash_str, Local, Run};
use serde_json::json;
use std::cell::RefCell;
use std::panic::{catch_unwind, AssertUnwindSafe};
use std::sync::{Arc, Barrier, Condvar, Mutex};
use wirefilter::verif::panic_catcher_level;
use wirefilter::{
    catch_panic, panic_catcher_disable, panic_catcher_enable, panic_catcher_get_backtrace,
    panic_catcher_set_fallback_mode, panic_catcher_set_hook, PanicCatcherFallbackMode,
};

#[derive(Clone, Copy, Debug, PartialEq, Eq)]
pub enum Step {
    Enable,
    Disable,
    Enter,
    Return,
    Panic,
    InstallHook,
    FallbackContinue,
    Backtrace,
}
pub const STEPS: [Step; 8] = [
    Step::Enable,
    Step::Disable,
    Step::Enter,
    Step::Return,
    Step::Panic,
    Step::InstallHook,
    Step::FallbackContinue,
    Step::Backtrace,
];
pub const STATE_STEPS: [Step; 5] = [Step::Enable, Step::Disable, Step::Enter, Step::Return, Step::Panic];

thread_local! {
    static SENTINEL: RefCell<Vec<String>> = const { RefCell::new(Vec::new()) };
}

pub fn install_sentinel() {
    std::panic::set_hook(Box::new(|info| {
        let msg = if let Some(s) = info.payload().downcast_ref::<&str>() {
            s.to_string()
        } else if let Some(s) = info.payload().downcast_ref::<String>() {
            s.clone()
        } else {
            "<non-string>".to_string()
        };
        if !msg.starts_with("c19-") {
            eprintln!("harness panic: {} at {:?}", msg, info.location());
        }
        SENTINEL.with(|s| s.borrow_mut().push(msg));
    }));
}

fn take_sentinel() -> Vec<String> {
    SENTINEL.with(|s| std::mem::take(&mut *s.borrow_mut()))
}

/// What one thread observed while running a program.
#[derive(Clone, Debug, PartialEq, Eq)]
pub enum Obs {
    /// catch_panic returned Ok (frame left by return / end of program)
    FrameOk,
    /// catch_panic returned Err and the text contains the message with this number
    FrameErr(usize),
    /// catch_panic returned Err but the text lacks the expected message
    FrameErrOther(String),
    /// level hook after a step
    Level(u64),
    /// get_backtrace: number of the message it contains, or None
    Backtrace(Option<usize>),
    /// the program ended by a panic that left every frame; sentinel saw these messages
    Uncaught(Vec<usize>),
    /// sentinel calls that happened without the program ending (must not happen)
    SentinelDuring(Vec<usize>),
    /// probe panic after the program: sentinel messages seen, final level
    Probe(Vec<usize>, u64),
}

fn msg(tid: usize, k: usize) -> String {
    format!("c19-t{}-m{}-", tid, k)
}

fn find_msg(text: &str, tid: usize, upto: usize) -> Option<usize> {
    (0..=upto).rev().find(|k| text.contains(&msg(tid, *k)))
}

pub trait Sched: Sync {
    fn before_step(&self, tid: usize);
    fn finished(&self, tid: usize);
}

pub struct NoSched;
impl Sched for NoSched {
    fn before_step(&self, _: usize) {}
    fn finished(&self, _: usize) {}
}

struct Interp<'a> {
    prog: &'a [Step],
    pc: usize,
    tid: usize,
    panics: usize,
    obs: Vec<Obs>,
    sched: &'a dyn Sched,
    /// every panic step owns a value whose destructor calls catch_panic while the panic unwinds
    guards: bool,
}

/// A value whose destructor runs a (returning) catch_panic: when it is dropped by an
/// unwinding panic this is one more "catch" step between the panic and the frame that
/// receives it, which must not change what that frame reports.
struct NestedCatchOnDrop(u32);
impl Drop for NestedCatchOnDrop {
    fn drop(&mut self) {
        let n = self.0;
        let r = catch_panic(move || n + 1);
        if r != Ok(n + 1) {
            DROP_PROBLEMS.with(|d| d.borrow_mut().push(format!("catch_panic in a destructor returned {:?}", r)));
        }
    }
}

thread_local! {
    static DROP_PROBLEMS: RefCell<Vec<String>> = const { RefCell::new(Vec::new()) };
}

enum Exit {
    Returned,
    End,
}

impl<'a> Interp<'a> {
    fn run_frame(&mut self, depth: usize) -> Exit {
        while self.pc < self.prog.len() {
            self.sched.before_step(self.tid);
            let step = self.prog[self.pc];
            self.pc += 1;
            match step {
                Step::Enable => panic_catcher_enable(),
                Step::Disable => panic_catcher_disable(),
                Step::InstallHook => panic_catcher_set_hook(),
                Step::FallbackContinue => {
                    panic_catcher_set_fallback_mode(PanicCatcherFallbackMode::Continue);
                }
                Step::Backtrace => {
                    let bt = panic_catcher_get_backtrace();
                    let seen = bt.and_then(|t| find_msg(&t, self.tid, self.panics));
                    self.obs.push(Obs::Backtrace(seen));
                }
                Step::Enter => {
                    let before_sentinel = SENTINEL.with(|s| s.borrow().len());
                    let r = {
                        let me = AssertUnwindSafe(&mut *self);
                        catch_panic(move || {
                            let me = me;
                            me.0.run_frame(depth + 1)
                        })
                    };
                    match r {
                        Ok(_) => self.obs.push(Obs::FrameOk),
                        Err(text) => match find_msg(&text, self.tid, self.panics) {
                            Some(k) => self.obs.push(Obs::FrameErr(k)),
                            None => self
                                .obs
                                .push(Obs::FrameErrOther(text.lines().next().unwrap_or("").to_string())),
                        },
                    }
                    let after = SENTINEL.with(|s| s.borrow().len());
                    if after != before_sentinel {
                        let extra: Vec<usize> = SENTINEL.with(|s| {
                            s.borrow()[before_sentinel..]
                                .iter()
                                .filter_map(|m| find_msg(m, self.tid, self.panics))
                                .collect()
                        });
                        self.obs.push(Obs::SentinelDuring(extra));
                    }
                }
                Step::Return => {
                    if depth > 0 {
                        self.obs.push(Obs::Level(panic_catcher_level()));
                        return Exit::Returned;
                    }
                }
                Step::Panic => {
                    self.panics += 1;
                    let m = msg(self.tid, self.panics);
                    let _guard = if self.guards { Some(NestedCatchOnDrop(self.panics as u32)) } else { None };
                    panic!("{}", m);
                }
            }
            self.obs.push(Obs::Level(panic_catcher_level()));
        }
        Exit::End
    }
}

/// Runs `prog` on the current (fresh) thread and returns the observations.
pub fn execute(prog: &[Step], tid: usize, sched: &dyn Sched) -> Vec<Obs> {
    execute_with(prog, tid, sched, false)
}

pub fn execute_with(prog: &[Step], tid: usize, sched: &dyn Sched, guards: bool) -> Vec<Obs> {
    let _ = take_sentinel();
    let mut it = Interp {
        prog,
        pc: 0,
        tid,
        panics: 0,
        obs: Vec::new(),
        sched,
        guards,
    };
    let r = catch_unwind(AssertUnwindSafe(|| {
        it.run_frame(0);
    }));
    let mut obs = std::mem::take(&mut it.obs);
    for p in DROP_PROBLEMS.with(|d| std::mem::take(&mut *d.borrow_mut())) {
        obs.push(Obs::FrameErrOther(p));
    }
    let seen: Vec<usize> = take_sentinel()
        .iter()
        .filter_map(|m| find_msg(m, tid, it.panics))
        .collect();
    if r.is_err() {
        obs.push(Obs::Uncaught(seen));
    } else if !seen.is_empty() {
        obs.push(Obs::SentinelDuring(seen));
    }
    sched.finished(tid);
    // probe: a panic outside catch_panic must reach the sentinel once and unwind
    let probe_no = it.panics + 1;
    let pr = catch_unwind(|| {
        panic!("{}", msg(tid, probe_no));
    });
    let seen: Vec<usize> = take_sentinel()
        .iter()
        .filter_map(|m| find_msg(m, tid, probe_no))
        .collect();
    let _ = pr;
    obs.push(Obs::Probe(seen, panic_catcher_level()));
    obs
}

/// The abstract model: what `execute` must observe.
pub fn model(prog: &[Step]) -> Vec<Obs> {
    struct M<'a> {
        prog: &'a [Step],
        pc: usize,
        enabled: bool,
        /// open frames: catching?
        frames: Vec<bool>,
        panics: usize,
        last_caught: Option<usize>,
        obs: Vec<Obs>,
    }
    enum Ex {
        Returned,
        End,
        /// a panic is propagating towards frame index `to` (None = out of the program)
        Panicking(Option<usize>),
    }
    impl<'a> M<'a> {
        fn level(&self) -> u64 {
            self.frames.iter().filter(|c| **c).count() as u64
        }
        fn frame(&mut self, depth: usize) -> Ex {
            while self.pc < self.prog.len() {
                let step = self.prog[self.pc];
                self.pc += 1;
                match step {
                    Step::Enable => self.enabled = true,
                    Step::Disable => self.enabled = false,
                    Step::InstallHook | Step::FallbackContinue => {}
                    Step::Backtrace => self.obs.push(Obs::Backtrace(self.last_caught)),
                    Step::Enter => {
                        let my_index = self.frames.len();
                        let catching = self.enabled;
                        self.frames.push(catching);
                        let ex = self.frame(depth + 1);
                        match ex {
                            Ex::Returned | Ex::End => {
                                self.frames.truncate(my_index);
                                self.obs.push(Obs::FrameOk);
                            }
                            Ex::Panicking(Some(to)) if to == my_index => {
                                self.frames.truncate(my_index);
                                self.last_caught = Some(self.panics);
                                self.obs.push(Obs::FrameErr(self.panics));
                            }
                            Ex::Panicking(to) => {
                                // passes through this (transparent or outer) frame
                                return Ex::Panicking(to);
                            }
                        }
                    }
                    Step::Return => {
                        if depth > 0 {
                            // level is observed before the frame is popped
                            self.obs.push(Obs::Level(self.level()));
                            return Ex::Returned;
                        }
                    }
                    Step::Panic => {
                        self.panics += 1;
                        let target = self.frames.iter().rposition(|c| *c);
                        return Ex::Panicking(target);
                    }
                }
                self.obs.push(Obs::Level(self.level()));
            }
            Ex::End
        }
    }
    let mut m = M {
        prog,
        pc: 0,
        enabled: false,
        frames: vec![],
        panics: 0,
        last_caught: None,
        obs: vec![],
    };
    let ex = m.frame(0);
    if let Ex::Panicking(_) = ex {
        m.frames.clear();
        let n = m.panics;
        m.obs.push(Obs::Uncaught(vec![n]));
    }
    m.obs.push(Obs::Probe(vec![m.panics + 1], 0));
    m.obs
}

fn show(prog: &[Step]) -> Vec<String> {
    prog.iter().map(|s| format!("{:?}", s)).collect()
}

fn decode(mut x: u64, alphabet: &[Step], max_len: usize) -> Vec<Step> {
    // index -> program (all lengths 0..=max_len)
    let n = alphabet.len() as u64;
    let mut len = 0usize;
    let mut block = 1u64;
    while x >= block && len < max_len {
        x -= block;
        block *= n;
        len += 1;
    }
    (0..len)
        .map(|_| {
            let s = alphabet[(x % n) as usize];
            x /= n;
            s
        })
        .collect()
}

fn count_programs(alphabet: usize, max_len: usize) -> u64 {
    let mut t = 0u64;
    let mut p = 1u64;
    for _ in 0..=max_len {
        t += p;
        p *= alphabet as u64;
    }
    t
}

/// strict lock-step scheduler for two threads following a fixed schedule
struct LockStep {
    schedule: Vec<usize>,
    state: Mutex<(usize, [bool; 2], [bool; 2])>, // (position, step-in-progress per thread, finished)
    cv: Condvar,
}

impl LockStep {
    fn advance_if_in_progress(&self, g: &mut (usize, [bool; 2], [bool; 2]), tid: usize) {
        if g.1[tid] {
            g.1[tid] = false;
            g.0 += 1;
        }
    }
}

impl Sched for LockStep {
    fn before_step(&self, tid: usize) {
        let mut g = self.state.lock().unwrap();
        self.advance_if_in_progress(&mut g, tid);
        self.cv.notify_all();
        loop {
            // skip slots of a thread that has already finished
            while g.0 < self.schedule.len() && g.2[self.schedule[g.0]] {
                g.0 += 1;
            }
            if g.0 >= self.schedule.len() || self.schedule[g.0] == tid {
                break;
            }
            g = self.cv.wait(g).unwrap();
        }
        g.1[tid] = true;
    }
    fn finished(&self, tid: usize) {
        let mut g = self.state.lock().unwrap();
        self.advance_if_in_progress(&mut g, tid);
        g.2[tid] = true;
        self.cv.notify_all();
    }
}

fn interleavings(a: usize, b: usize) -> Vec<Vec<usize>> {
    fn rec(a: usize, b: usize, cur: &mut Vec<usize>, out: &mut Vec<Vec<usize>>) {
        if a == 0 && b == 0 {
            out.push(cur.clone());
            return;
        }
        if a > 0 {
            cur.push(0);
            rec(a - 1, b, cur, out);
            cur.pop();
        }
        if b > 0 {
            cur.push(1);
            rec(a, b - 1, cur, out);
            cur.pop();
        }
    }
    let mut out = Vec::new();
    rec(a, b, &mut Vec::new(), &mut out);
    out
}

pub fn run(run: &Run) {
    let seed = run.opts.seed;
    install_sentinel();

    // ---- install race: fresh processes, 16 threads call panic_catcher_set_hook at once
    let races = run.opts.size(48, 1_500);
    run.isolated("install-race", races, 60, "C19", |i, l| {
        // (child process: sentinel installed above, catcher hook NOT yet installed)
        let threads: usize = run
            .opts
            .extra
            .get("race-threads")
            .and_then(|s| s.parse().ok())
            .unwrap_or(16);
        // widen the window between take_hook and set_hook inside the catcher
        wirefilter::verif::set_race_delay_us(2_000);
        let barrier = Arc::new(Barrier::new(threads));
        let hs: Vec<_> = (0..threads)
            .map(|_| {
                let b = barrier.clone();
                std::thread::spawn(move || {
                    b.wait();
                    panic_catcher_set_hook();
                })
            })
            .collect();
        for h in hs {
            let _ = h.join();
        }
        wirefilter::verif::set_race_delay_us(0);
        l.evals += 1;
        // a panic outside catch_panic still reaches the previously installed hook, once
        let prog = [Step::Enable, Step::Enter, Step::Panic, Step::Disable];
        let got = std::thread::spawn(move || execute(&prog, 0, &NoSched)).join().unwrap();
        let want = model(&prog);
        if got != want {
            run.violation(
                "C19/install-race/hook-chain-broken",
                "model",
                "install-race",
                i,
                json!({"program": show(&prog), "expected": format!("{:?}", want), "observed": format!("{:?}", got),
                       "note": "16 threads called panic_catcher_set_hook() simultaneously in a fresh process"}),
            );
        }
        run.distinct(i ^ 0xace);
    });
    if run.is_child() {
        return;
    }

    panic_catcher_set_hook();

    // ---- every program up to length N on a fresh thread
    let max_len = if run.opts.thorough() { 6 } else { 5 };
    let total = count_programs(STEPS.len(), max_len);
    run.exhaustive("programs", true);
    run.note("max_program_length", json!(max_len));
    run.parallel("programs", total, |i, l| {
        let prog = decode(i, &STEPS, max_len);
        let p2 = prog.clone();
        let got = std::thread::Builder::new()
            .spawn(move || execute(&p2, 0, &NoSched))
            .unwrap()
            .join();
        l.evals += 1;
        let want = model(&prog);
        match got {
            Ok(got) if got == want => {
                if want.iter().any(|o| matches!(o, Obs::FrameErr(_))) {
                    l.count("programs_with_caught_panic");
                }
                if want.iter().any(|o| matches!(o, Obs::Uncaught(_))) {
                    l.count("programs_with_uncaught_panic");
                }
            }
            Ok(got) => {
                let first_diff = got.iter().zip(want.iter()).position(|(a, b)| a != b).unwrap_or(got.len().min(want.len()));
                let kind = match (got.get(first_diff), want.get(first_diff)) {
                    (Some(g), Some(w)) => format!(
                        "{}-instead-of-{}",
                        format!("{:?}", g).split('(').next().unwrap_or("?").to_string(),
                        format!("{:?}", w).split('(').next().unwrap_or("?")
                    ),
                    _ => "length".to_string(),
                };
                run.violation(
                    &format!("C19/program/{}", kind),
                    "model",
                    "programs",
                    i,
                    json!({"program": show(&prog), "expected": format!("{:?}", want), "observed": format!("{:?}", got)}),
                );
            }
            Err(_) => run.violation(
                "C19/program/thread-died",
                "model",
                "programs",
                i,
                json!({"program": show(&prog)}),
            ),
        }
        if prog.len() >= 2 {
            run.distinct(i.wrapping_mul(0x9E37_79B9_7F4A_7C15));
        }
        if i % 4001 == 0 {
            run.sample("programs", 5, || json!({"program": show(&prog), "observations": format!("{:?}", want)}));
        }
    });

    // ---- the same programs with a destructor that calls catch_panic while each panic
    // unwinds (a catch step between the panic and the frame that receives it): the
    // observations must be exactly those of the plain program
    let max_len_d = if run.opts.thorough() { 5 } else { 4 };
    let total_d = count_programs(STEPS.len(), max_len_d);
    run.exhaustive("programs-with-destructors", true);
    run.parallel("programs-with-destructors", total_d, |i, l| {
        let prog = decode(i, &STEPS, max_len_d);
        if !prog.contains(&Step::Panic) {
            return;
        }
        let p2 = prog.clone();
        let got = std::thread::Builder::new()
            .spawn(move || execute_with(&p2, 0, &NoSched, true))
            .unwrap()
            .join();
        l.evals += 1;
        l.count("programs_with_catching_destructor");
        let want = model(&prog);
        match got {
            Ok(got) if got == want => {}
            Ok(got) => run.violation(
                "C19/program-with-destructor/observations-differ",
                "model",
                "programs-with-destructors",
                i,
                json!({"program": show(&prog), "expected": format!("{:?}", want), "observed": format!("{:?}", got)}),
            ),
            Err(_) => run.violation("C19/program-with-destructor/thread-died", "model", "programs-with-destructors", i, json!({"program": show(&prog)})),
        }
        run.distinct(i.wrapping_mul(0x9E37_79B9_7F4A_7C15) ^ 0xd);
    });

    // ---- many threads at once: each catch_panic returns its OWN panic's text.
    // Fresh threads every round (the number of threads that ever used the
    // catcher in this process keeps growing), released together; a destructor
    // that yields while the panic unwinds gives the other threads' hooks room
    // to run between this thread's hook and its catch_panic returning.
    if run.opts.wants("many-threads") {
        let threads: usize = if run.opts.variant == "miri" { 4 } else { 96 };
        let rounds = match run.opts.variant.as_str() {
            "miri" => 1,
            "tsan" | "asan" | "dbg" => if run.opts.thorough() { 12 } else { 3 },
            _ => if run.opts.thorough() { 120 } else { 8 },
        };
        let per_thread = 12usize;
        let mut foreign = 0u64;
        let mut first: Option<serde_json::Value> = None;
        let mut observed = 0u64;
        for round in 0..rounds {
            let barrier = Arc::new(Barrier::new(threads));
            let hs: Vec<_> = (0..threads)
                .map(|tid| {
                    let b = barrier.clone();
                    std::thread::spawn(move || -> Vec<(String, String)> {
                        struct SlowUnwind;
                        impl Drop for SlowUnwind {
                            fn drop(&mut self) {
                                for _ in 0..6 {
                                    std::thread::yield_now();
                                }
                            }
                        }
                        panic_catcher_enable();
                        b.wait();
                        let mut bad = Vec::new();
                        for k in 0..per_thread {
                            let tag = format!("c19-storm-r{}-t{}-k{}!", round, tid, k);
                            let t2 = tag.clone();
                            let r = catch_panic(AssertUnwindSafe(move || -> u8 {
                                let _g = SlowUnwind;
                                panic!("{}", t2)
                            }));
                            match r {
                                Err(text) if text.contains(&tag) && text.matches("c19-storm-").count() == 1 => {}
                                Err(text) => bad.push((tag, text)),
                                Ok(_) => bad.push((tag, "<returned Ok>".into())),
                            }
                        }
                        panic_catcher_disable();
                        bad
                    })
                })
                .collect();
            for h in hs {
                match h.join() {
                    Ok(bad) => {
                        observed += per_thread as u64;
                        for (tag, text) in bad {
                            foreign += 1;
                            if first.is_none() {
                                first = Some(json!({"own_message": tag, "catch_panic_returned": text.chars().take(300).collect::<String>()}));
                            }
                        }
                    }
                    Err(_) => {
                        foreign += 1;
                        if first.is_none() {
                            first = Some(json!({"problem": "a thread died: its panic was not caught"}));
                        }
                    }
                }
            }
            run.distinct(hash_str(&format!("many|{}", round)));
        }
        let _ = take_sentinel();
        run.evaluations.fetch_add(observed, std::sync::atomic::Ordering::Relaxed);
        run.counter("many_threads_caught_panics", observed);
        run.note("many_threads", json!({"threads_per_round": threads, "rounds": rounds, "panics_per_thread": per_thread}));
        if foreign > 0 {
            run.violation(
                "C19/many-threads/catch_panic-returned-another-threads-text",
                "thread-isolation",
                "many-threads",
                0,
                json!({"threads": threads, "rounds": rounds, "wrong_results": foreign, "first": first}),
            );
        }
    }

    // ---- two threads, every step-granularity interleaving
    let nprog = count_programs(STATE_STEPS.len(), 3);
    let pairs_total = nprog * nprog;
    let pairs = if run.opts.thorough() { pairs_total } else { run.opts.size(1_200, pairs_total).min(pairs_total) };
    run.exhaustive("two-threads", run.opts.thorough());
    run.parallel("two-threads", pairs, |i, l| {
        let idx = if run.opts.thorough() {
            i
        } else {
            Rng::derive(seed, "c19-pairs", i).next() % pairs_total
        };
        let pa = decode(idx / nprog, &STATE_STEPS, 3);
        let pb = decode(idx % nprog, &STATE_STEPS, 3);
        let (wa, wb) = (model(&pa), model(&pb));
        for sch in interleavings(pa.len(), pb.len()) {
            let ls = Arc::new(LockStep {
                schedule: sch.clone(),
                state: Mutex::new((0, [false; 2], [false; 2])),
                cv: Condvar::new(),
            });
            let (a2, b2) = (pa.clone(), pb.clone());
            let (l1, l2) = (ls.clone(), ls.clone());
            let ha = std::thread::spawn(move || execute(&a2, 0, &*l1));
            let hb = std::thread::spawn(move || execute(&b2, 1, &*l2));
            let ga = ha.join();
            let gb = hb.join();
            l.evals += 1;
            let ok = matches!((&ga, &gb), (Ok(a), Ok(b)) if *a == wa && *b == wb);
            if !ok {
                run.violation(
                    "C19/two-threads/observations-differ-from-solo-run",
                    "thread-isolation",
                    "two-threads",
                    i,
                    json!({"program_a": show(&pa), "program_b": show(&pb), "schedule": sch,
                           "expected_a": format!("{:?}", wa), "observed_a": format!("{:?}", ga.ok()),
                           "expected_b": format!("{:?}", wb), "observed_b": format!("{:?}", gb.ok())}),
                );
                break;
            }
            l.count("interleavings");
        }
        run.distinct(hash_str(&format!("2|{}", idx)));
        if i % 301 == 0 {
            run.sample("two-threads", 3, || json!({"a": show(&pa), "b": show(&pb), "interleavings": interleavings(pa.len(), pb.len()).len()}));
        }
    });
    let _ = Local::default();
}
