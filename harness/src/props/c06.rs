//! C06 — every literal form denotes its documented value; malformed forms are
//! rejected. Oracle: render value v in form f inside several syntactic
//! contexts, parse, and require the AST's JSON to be exactly the canonical
//! document of the generated structure (so the decoded value is v and the
//! literal consumed exactly its own characters).

use super::common::*;
use crate::ast::*;
use crate::canon;
use crate::gen::*;
use crate::prng::Rng;
use crate::report::{guard, hash_str, Local, Run};
use crate::rv::RType;
use serde_json::json;
use std::net::{IpAddr, Ipv4Addr, Ipv6Addr};

fn fld(env: &Env, n: &str) -> Path {
    Path::field(env.field(n).unwrap_or_else(|| panic!("field {}", n)))
}
fn func(env: &Env, n: &str) -> usize {
    env.func(n).unwrap_or_else(|| panic!("func {}", n))
}
fn bare(env: &Env, n: &str) -> Expr {
    Expr::Cmp(fld(env, n), CmpOp::IsTrue)
}

/// Contexts in which a comparison `<field> <op> L` can stand, each with the
/// token that follows the literal. `cmp_text` is the rendered comparison.
fn wrap_cmp(env: &Env, cmp: &Expr, cmp_text: &str, k: usize) -> Option<(Expr, String)> {
    let t = bare(env, "tru_m");
    Some(match k {
        0 => (cmp.clone(), cmp_text.to_string()),
        1 => (Expr::paren(cmp.clone()), format!("({})", cmp_text)),
        2 => (
            Expr::Comb(LogOp::And, vec![cmp.clone(), t]),
            format!("{} and tru_m", cmp_text),
        ),
        3 => (
            Expr::Comb(LogOp::And, vec![cmp.clone(), t]),
            format!("{}&&tru_m", cmp_text),
        ),
        4 => (
            Expr::Comb(LogOp::Or, vec![cmp.clone(), t]),
            format!("{}||tru_m", cmp_text),
        ),
        5 => (
            Expr::Comb(LogOp::Xor, vec![cmp.clone(), t]),
            format!("{}\nxor\ntru_m", cmp_text),
        ),
        6 => (
            Expr::Comb(LogOp::Xor, vec![cmp.clone(), t]),
            format!("{}^^tru_m", cmp_text),
        ),
        7 => (
            Expr::not(Expr::paren(cmp.clone())),
            format!("not ( {} )", cmp_text),
        ),
        8 => (
            Expr::Comb(LogOp::Or, vec![t, cmp.clone()]),
            format!("tru_m or {}", cmp_text),
        ),
        9 => (
            Expr::Comb(LogOp::And, vec![Expr::paren(cmp.clone()), t]),
            format!("({})and tru_m", cmp_text),
        ),
        _ => return None,
    })
}
const WRAPS: usize = 10;

fn check_text(run: &Run, l: &mut Local, fam: &str, i: u64, eng: &Eng, expr: &Expr, text: &str, what: &str) {
    l.evals += 1;
    match guard(|| eng.scheme.parse(text).map_err(|e| e.to_string())) {
        Ok(Ok(ast)) => {
            let got = serde_json::to_value(&ast).unwrap_or(serde_json::Value::Null);
            let want = canon::expr(&eng.env, expr);
            if got != want {
                run.violation(
                    &format!("C06/wrong-decoding/{}", what),
                    "round-trip",
                    fam,
                    i,
                    json!({"text": text, "expected": want, "got": got}),
                );
            }
        }
        Ok(Err(e)) => run.violation(
            &format!("C06/valid-literal-rejected/{}/{}", what, error_kind(&e)),
            "round-trip",
            fam,
            i,
            json!({"text": text, "error": e}),
        ),
        Err(p) => run.violation(
            &format!("C06/panic/{}", first_line(&p)),
            "no-panic",
            fam,
            i,
            json!({"text": text, "panic": p}),
        ),
    }
}

fn check_rejected(run: &Run, l: &mut Local, fam: &str, i: u64, eng: &Eng, text: &str, what: &str) {
    l.evals += 1;
    match guard(|| eng.scheme.parse(text).map(|a| serde_json::to_string(&a).unwrap_or_default()).map_err(|e| e.to_string())) {
        Ok(Err(_)) => {}
        Ok(Ok(js)) => run.violation(
            &format!("C06/malformed-literal-accepted/{}", what),
            "rejection",
            fam,
            i,
            json!({"text": text, "parsed_as": js}),
        ),
        Err(p) => run.violation(
            &format!("C06/panic/{}", first_line(&p)),
            "no-panic",
            fam,
            i,
            json!({"text": text, "panic": p}),
        ),
    }
}

pub fn int_forms(v: i64) -> Vec<(String, &'static str)> {
    let mut f = vec![(v.to_string(), "dec")];
    if v >= 0 {
        f.push((format!("0x{:x}", v), "hex"));
        f.push((format!("0x{:X}", v), "HEX"));
        f.push((format!("0{:o}", v), "oct"));
    }
    f
}

/// every embedding of an integer literal; returns (expr, text, label)
fn int_embeddings(env: &Env, v: i64, lt: &str) -> Vec<(Expr, String, &'static str)> {
    let mut out = Vec::new();
    let n = fld(env, "num_m");
    let cmp = Expr::Cmp(n.clone(), CmpOp::Ord(OrdOp::Eq, Lit::Int(v)));
    for k in 0..WRAPS {
        let (e, t) = wrap_cmp(env, &cmp, &format!("num_m == {}", lt), k).unwrap();
        out.push((e, t, "cmp"));
    }
    out.push((
        Expr::Cmp(n.clone(), CmpOp::Ord(OrdOp::Ge, Lit::Int(v))),
        format!("num_m>={}", lt),
        "cmp-tight",
    ));
    out.push((
        Expr::Cmp(n.clone(), CmpOp::BitAnd(v)),
        format!("num_m & {}", lt),
        "bitand",
    ));
    out.push((
        Expr::Cmp(n.clone(), CmpOp::InSet(SetLit::Int(vec![IntItem::One(v)]))),
        format!("num_m in {{{}}}", lt),
        "set1",
    ));
    out.push((
        Expr::Cmp(
            n.clone(),
            CmpOp::InSet(SetLit::Int(vec![IntItem::One(v), IntItem::One(7)])),
        ),
        format!("num_m in {{ {} 7 }}", lt),
        "set-first",
    ));
    out.push((
        Expr::Cmp(
            n.clone(),
            CmpOp::InSet(SetLit::Int(vec![IntItem::One(7), IntItem::One(v)])),
        ),
        format!("num_m in {{7 {}}}", lt),
        "set-last",
    ));
    out.push((
        Expr::Cmp(
            Path {
                base: Base::Call(Box::new(Call {
                    func: func(env, "idn1"),
                    args: vec![Arg::Lit(Lit::Int(v))],
                })),
                idx: vec![],
            },
            CmpOp::Ord(OrdOp::Eq, Lit::Int(1)),
        ),
        format!("idn1({}) == 1", lt),
        "arg-only",
    ));
    out.push((
        Expr::Cmp(
            Path {
                base: Base::Call(Box::new(Call {
                    func: func(env, "sum1"),
                    args: vec![Arg::Path(n.clone()), Arg::Lit(Lit::Int(v)), Arg::Lit(Lit::Int(5))],
                })),
                idx: vec![],
            },
            CmpOp::Ord(OrdOp::Eq, Lit::Int(1)),
        ),
        format!("sum1(num_m , {} , 5) == 1", lt),
        "arg-middle",
    ));
    out.push((
        Expr::Cmp(
            Path {
                base: Base::Call(Box::new(Call {
                    func: func(env, "sum1"),
                    args: vec![Arg::Path(n.clone()), Arg::Lit(Lit::Int(v))],
                })),
                idx: vec![],
            },
            CmpOp::Ord(OrdOp::Eq, Lit::Int(1)),
        ),
        format!("sum1(num_m,{})==1", lt),
        "arg-last",
    ));
    out.push((
        Expr::Quant(
            QOp::Any,
            QArg::Logical(Box::new(Expr::Cmp(
                Path {
                    base: Base::Field(env.field("l_num_m").unwrap()),
                    idx: vec![Idx::Each],
                },
                CmpOp::Ord(OrdOp::Lt, Lit::Int(v)),
            ))),
        ),
        format!("any(l_num_m[*] < {})", lt),
        "quantifier",
    ));
    out
}

fn quoted_forms(data: &[u8], r: &mut Rng) -> Vec<(String, &'static str)> {
    let mut out = Vec::new();
    let esc = |style: u8, r: &mut Rng| -> String {
        let mut s = String::from("\"");
        let utf8 = std::str::from_utf8(data).ok();
        if style == 0 {
            if let Some(u) = utf8 {
                for ch in u.chars() {
                    match ch {
                        '"' => s.push_str("\\\""),
                        '\\' => s.push_str("\\\\"),
                        c => s.push(c),
                    }
                }
                s.push('"');
                return s;
            }
        }
        for &c in data {
            let st = if style == 4 { 1 + r.below(3) as u8 } else { style };
            match st {
                1 => s.push_str(&format!("\\x{:02x}", c)),
                2 => s.push_str(&format!("\\x{:02X}", c)),
                3 => s.push_str(&format!("\\{:03o}", c)),
                _ => {
                    if (0x20..0x7f).contains(&c) && c != b'"' && c != b'\\' {
                        s.push(c as char)
                    } else {
                        s.push_str(&format!("\\x{:02x}", c))
                    }
                }
            }
        }
        s.push('"');
        s
    };
    out.push((esc(0, r), "quoted-literal-chars"));
    out.push((esc(1, r), "quoted-xhh"));
    out.push((esc(2, r), "quoted-xHH"));
    out.push((esc(3, r), "quoted-octal"));
    out.push((esc(4, r), "quoted-mixed"));
    out
}

fn bytes_embeddings(env: &Env, lit: &BytesLit, lt: &str, in_arg_ok: bool) -> Vec<(Expr, String, &'static str)> {
    let mut out = Vec::new();
    let s = fld(env, "str_m");
    let cmp = Expr::Cmp(s.clone(), CmpOp::Ord(OrdOp::Eq, Lit::Bytes(lit.clone())));
    for k in 0..WRAPS {
        let (e, t) = wrap_cmp(env, &cmp, &format!("str_m == {}", lt), k).unwrap();
        out.push((e, t, "cmp"));
    }
    out.push((
        Expr::Cmp(s.clone(), CmpOp::Ord(OrdOp::Ne, Lit::Bytes(lit.clone()))),
        format!("str_m!={}", lt),
        "cmp-tight",
    ));
    out.push((
        Expr::Cmp(s.clone(), CmpOp::Contains(lit.clone())),
        format!("str_m contains {}", lt),
        "contains",
    ));
    out.push((
        Expr::Cmp(
            s.clone(),
            CmpOp::InSet(SetLit::Bytes(vec![lit.clone(), BytesLit::quoted(b"z".to_vec())])),
        ),
        format!("str_m in {{{} \"z\"}}", lt),
        "set-first",
    ));
    out.push((
        Expr::Cmp(
            s.clone(),
            CmpOp::InSet(SetLit::Bytes(vec![BytesLit::quoted(b"z".to_vec()), lit.clone()])),
        ),
        format!("str_m in {{\"z\" {}}}", lt),
        "set-last",
    ));
    if in_arg_ok {
        out.push((
            Expr::Cmp(
                Path {
                    base: Base::Call(Box::new(Call {
                        func: func(env, "ids1"),
                        args: vec![Arg::Lit(Lit::Bytes(lit.clone()))],
                    })),
                    idx: vec![],
                },
                CmpOp::Ord(OrdOp::Eq, Lit::Bytes(BytesLit::quoted(b"x".to_vec()))),
            ),
            format!("ids1({}) == \"x\"", lt),
            "arg-only",
        ));
        out.push((
            Expr::Cmp(
                Path {
                    base: Base::Call(Box::new(Call {
                        func: func(env, "glue1"),
                        args: vec![
                            Arg::Path(s.clone()),
                            Arg::Lit(Lit::Bytes(lit.clone())),
                            Arg::Path(s.clone()),
                        ],
                    })),
                    idx: vec![],
                },
                CmpOp::Ord(OrdOp::Eq, Lit::Bytes(BytesLit::quoted(b"x".to_vec()))),
            ),
            format!("glue1(str_m,{},str_m) == \"x\"", lt),
            "arg-middle",
        ));
    }
    out
}

fn ip_spellings(a: &IpAddr) -> Vec<(String, &'static str)> {
    let mut out = vec![(a.to_string(), "canonical")];
    if let IpAddr::V6(v6) = a {
        out.push((crate::printer::expanded_v6(v6, false), "v6-expanded"));
        out.push((crate::printer::expanded_v6(v6, true), "v6-expanded-upper"));
        let segs = v6.segments();
        if segs[..5] == [0, 0, 0, 0, 0] && segs[5] == 0xffff {
            out.push((
                format!("::FFFF:{}.{}.{}.{}", segs[6] >> 8, segs[6] & 255, segs[7] >> 8, segs[7] & 255),
                "v6-mapped-dotted",
            ));
        }
    }
    out
}

fn ip_embeddings(env: &Env, a: &IpAddr, lt: &str) -> Vec<(Expr, String, &'static str)> {
    let mut out = Vec::new();
    let f = fld(env, "ipa_m");
    let cmp = Expr::Cmp(f.clone(), CmpOp::Ord(OrdOp::Eq, Lit::Ip(*a)));
    for k in 0..WRAPS {
        let (e, t) = wrap_cmp(env, &cmp, &format!("ipa_m == {}", lt), k).unwrap();
        out.push((e, t, "cmp"));
    }
    out.push((
        Expr::Cmp(f.clone(), CmpOp::Ord(OrdOp::Le, Lit::Ip(*a))),
        format!("ipa_m<={}", lt),
        "cmp-tight",
    ));
    out.push((
        Expr::Cmp(f.clone(), CmpOp::InSet(SetLit::Ip(vec![IpItem::Addr(*a)]))),
        format!("ipa_m in {{{}}}", lt),
        "set1",
    ));
    out.push((
        Expr::Cmp(
            f.clone(),
            CmpOp::InSet(SetLit::Ip(vec![
                IpItem::Addr(*a),
                IpItem::Addr("9.9.9.9".parse().unwrap()),
            ])),
        ),
        format!("ipa_m in {{ {} 9.9.9.9 }}", lt),
        "set-first",
    ));
    out.push((
        Expr::Cmp(
            Path {
                base: Base::Call(Box::new(Call {
                    func: func(env, "idi1"),
                    args: vec![Arg::Lit(Lit::Ip(*a))],
                })),
                idx: vec![],
            },
            CmpOp::Ord(OrdOp::Eq, Lit::Ip("1.2.3.4".parse().unwrap())),
        ),
        format!("idi1({}) == 1.2.3.4", lt),
        "arg-only",
    ));
    out
}

pub fn rejections() -> Vec<(&'static str, String)> {
    let mut v: Vec<(&'static str, String)> = Vec::new();
    let mut add = |w: &'static str, t: &str| v.push((w, t.to_string()));
    // integers
    add("int-overflow-dec", "num_m == 9223372036854775808");
    add("int-underflow-dec", "num_m == -9223372036854775809");
    add("int-overflow-hex", "num_m == 0x8000000000000000");
    add("int-overflow-oct", "num_m == 01000000000000000000000");
    add("int-bad-octal-digit", "num_m == 08");
    add("int-bad-octal-digit", "num_m == 0779");
    add("int-empty-hex", "num_m == 0x");
    add("int-lone-minus", "num_m == -");
    add("int-double-minus", "num_m == --1");
    add("int-plus-sign", "num_m == +1");
    add("int-hex-letter-in-dec", "num_m == 12ab");
    add("int-set-overflow", "num_m in {9223372036854775808}");
    add("int-range-reversed", "num_m in {5..1}");
    add("int-range-reversed", "num_m in {0..-1}");
    add("int-range-open", "num_m in {1..}");
    add("int-range-triple-dot", "num_m in {1...5}");
    // string escapes
    add("esc-one-hex-digit", r#"str_m == "\x1""#);
    add("esc-non-hex", r#"str_m == "\xg0""#);
    add("esc-non-hex", r#"str_m == "\x0g""#);
    add("esc-signed-hex", r#"str_m == "\x+1""#);
    add("esc-signed-hex", r#"str_m == "\x-1""#);
    add("esc-space-hex", r#"str_m == "\x 1""#);
    add("esc-bad-octal-lead", r#"str_m == "\8""#);
    add("esc-two-octal-digits", r#"str_m == "\12""#);
    add("esc-one-octal-digit", r#"str_m == "\1""#);
    add("esc-octal-overflow", r#"str_m == "\400""#);
    add("esc-octal-overflow", r#"str_m == "\777""#);
    add("esc-octal-nonoctal", r#"str_m == "\18a""#);
    add("esc-octal-signed", r#"str_m == "\0+1""#);
    add("esc-unknown", r#"str_m == "\q""#);
    add("esc-unknown", r#"str_m == "\n""#);
    add("esc-trailing-backslash", r#"str_m == "abc\"#);
    add("string-unterminated", r#"str_m == "abc"#);
    add("string-unterminated", r#"str_m == ""#);
    add("raw-unterminated", r##"str_m == r"abc"##);
    add("raw-unterminated", r##"str_m == r#"abc""##);
    add("raw-unterminated", r###"str_m == r##"abc"#"###);
    add("raw-no-quote", r##"str_m == r#abc#"##);
    let h256 = "#".repeat(256);
    v.push(("raw-256-hashes", format!("str_m == r{}\"x\"{}", h256, h256)));
    // hex pairs
    let mut add = |w: &'static str, t: &str| v.push((w, t.to_string()));
    add("hex-single-digit", "str_m == 1");
    add("hex-single-pair", "str_m == 1f");
    add("hex-trailing-sep", "str_m == 1f:");
    add("hex-signed", "str_m == +1:02");
    add("hex-signed", "str_m == 01:+2");
    add("hex-non-hex", "str_m == 1g:00");
    add("hex-three-digits", "str_m == 001:02");
    add("hex-odd", "str_m == 01:2");
    add("hex-bad-sep", "str_m == 01_02");
    // ip
    add("ip-range-reversed", "ipa_m in {10.0.0.2..10.0.0.1}");
    add("ip-range-reversed", "ipa_m in {::2..::1}");
    add("ip-range-mixed", "ipa_m in {1.2.3.4..::1}");
    add("ip-range-mixed", "ipa_m in {::1..1.2.3.4}");
    add("cidr-host-bits", "ipa_m in {10.0.0.1/8}");
    add("cidr-host-bits", "ipa_m in {::1/64}");
    add("cidr-host-bits", "ipa_m in {255.255.255.255/31}");
    add("cidr-too-long", "ipa_m in {10.0.0.0/33}");
    add("cidr-too-long", "ipa_m in {::/129}");
    add("cidr-empty-len", "ipa_m in {10.0.0.0/}");
    add("cidr-negative", "ipa_m in {10.0.0.0/-1}");
    add("ip-octet-overflow", "ipa_m == 256.0.0.1");
    add("ip-three-octets", "ipa_m == 1.2.3");
    add("ip-five-octets", "ipa_m == 1.2.3.4.5");
    add("ip-two-double-colons", "ipa_m == 1::2::3");
    add("ip-nine-groups", "ipa_m == 1:2:3:4:5:6:7:8:9");
    // indexes and keys
    add("index-negative", "l_num_m[-1] == 1");
    add("index-too-large", "l_num_m[4294967296] == 1");
    add("index-too-large", "l_num_m[0x100000000] == 1");
    add("index-empty", "l_num_m[] == 1");
    add("key-non-utf8", "m_num_m[\"\\xff\"] == 1");
    add("key-non-utf8", "m_num_m[\"\\xc3\"] == 1");
    add("key-unterminated", "m_num_m[\"a] == 1");
    v
}

pub fn run(run: &Run) {
    let eng = Eng::new(rich_env(0));
    let env = &eng.env;
    let seed = run.opts.seed;

    // ---- integers: boundary values exhaustively + random values
    let mut ints: Vec<i64> = vec![
        i64::MIN,
        i64::MIN + 1,
        -1,
        0,
        1,
        7,
        8,
        9,
        10,
        15,
        16,
        255,
        256,
        u32::MAX as i64,
        1 << 32,
        i64::MAX - 1,
        i64::MAX,
    ];
    let nrand = run.opts.size(60_000, 3_000_000);
    let mut r0 = Rng::derive(seed, "c06-ints", 0);
    for _ in 0..nrand {
        ints.push(if r0.bool() {
            r0.i64_any()
        } else {
            r0.i64_any() >> r0.below(63)
        });
    }
    run.parallel("int", ints.len() as u64, |i, l| {
        let v = ints[i as usize];
        for (lt, form) in int_forms(v) {
            for (e, t, ctx) in int_embeddings(env, v, &lt) {
                check_text(run, l, "int", i, &eng, &e, &t, &format!("int-{}-{}", form, ctx));
            }
            run.distinct(hash_str(&format!("i|{}", lt)));
        }
        if i % 997 == 0 {
            run.sample("int", 3, || json!({"value": v, "forms": int_forms(v).iter().map(|f| f.0.clone()).collect::<Vec<_>>()}));
        }
    });

    // ---- integer ranges
    let n = run.opts.size(80_000, 4_000_000);
    run.parallel("int-range", n, |i, l| {
        let mut r = Rng::derive(seed, "c06-range", i);
        let (a, b) = match i {
            0 => (i64::MIN, i64::MAX),
            1 => (i64::MIN, i64::MIN),
            2 => (i64::MAX, i64::MAX),
            3 => (-1, 0),
            _ => {
                let a = gen_int(&mut r);
                let b = gen_int(&mut r);
                (a.min(b), a.max(b))
            }
        };
        let fa = int_forms(a);
        let fb = int_forms(b);
        let (ta, _) = &fa[r.below(fa.len())];
        let (tb, _) = &fb[r.below(fb.len())];
        let e = Expr::Cmp(
            fld(env, "num_m"),
            CmpOp::InSet(SetLit::Int(vec![IntItem::Range(a, b), IntItem::One(3)])),
        );
        let t = format!("num_m in {{{}..{} 3}}", ta, tb);
        check_text(run, l, "int-range", i, &eng, &e, &t, "int-range");
        run.distinct(hash_str(&t));
        if i % 499 == 0 {
            run.sample("int-range", 3, || json!({"text": t}));
        }
    });

    // ---- array indexes
    let idxs: Vec<u32> = vec![0, 1, 7, 8, 255, 65535, (1 << 31) - 1, 1 << 31, u32::MAX - 1, u32::MAX];
    run.exhaustive("index", true);
    run.parallel("index", idxs.len() as u64, |i, l| {
        let v = idxs[i as usize];
        for (lt, form) in int_forms(v as i64) {
            for (pre, post) in [("", ""), (" ", " "), ("\n", "")] {
                let e = Expr::Cmp(
                    Path {
                        base: Base::Field(env.field("l_num_m").unwrap()),
                        idx: vec![Idx::Arr(v)],
                    },
                    CmpOp::Ord(OrdOp::Eq, Lit::Int(1)),
                );
                let t = format!("l_num_m[{}{}{}] == 1", pre, lt, post);
                check_text(run, l, "index", i, &eng, &e, &t, &format!("index-{}", form));
                // nested: index followed by another index
                let e2 = Expr::Cmp(
                    Path {
                        base: Base::Field(env.field("ll_num_o").unwrap()),
                        idx: vec![Idx::Arr(v), Idx::Arr(0)],
                    },
                    CmpOp::Ord(OrdOp::Eq, Lit::Int(1)),
                );
                let t2 = format!("ll_num_o[{}{}{}][0] == 1", pre, lt, post);
                check_text(run, l, "index", i, &eng, &e2, &t2, &format!("index2-{}", form));
            }
            run.distinct(hash_str(&format!("x|{}", lt)));
        }
    });

    // ---- every byte value in every escape form (complete table)
    run.exhaustive("byte-table", true);
    run.parallel("byte-table", 256, |i, l| {
        let b = i as u8;
        let mut r = Rng::derive(seed, "c06-byte", i);
        for data in [vec![b], vec![b'a', b, b'z'], vec![b, b]] {
            for (lt, form) in quoted_forms(&data, &mut r) {
                let lit = BytesLit::quoted(data.clone());
                for (e, t, ctx) in bytes_embeddings(env, &lit, &lt, true) {
                    check_text(run, l, "byte-table", i, &eng, &e, &t, &format!("bytes-{}-{}", form, ctx));
                }
                run.distinct(hash_str(&format!("b|{}", lt)));
            }
            if data.len() >= 2 {
                for sep in [b':', b'-', b'.'] {
                    for upper in [false, true] {
                        let lt: String = data
                            .iter()
                            .map(|c| if upper { format!("{:02X}", c) } else { format!("{:02x}", c) })
                            .collect::<Vec<_>>()
                            .join(&(sep as char).to_string());
                        let lit = BytesLit {
                            data: data.clone(),
                            form: BytesForm::Hex(sep),
                        };
                        for (e, t, ctx) in bytes_embeddings(env, &lit, &lt, false) {
                            check_text(run, l, "byte-table", i, &eng, &e, &t, &format!("bytes-hex-{}", ctx));
                        }
                        run.distinct(hash_str(&format!("h|{}", lt)));
                    }
                }
            }
        }
        if i % 64 == 0 {
            run.sample("byte-table", 4, || json!({"byte": b, "forms": quoted_forms(&[b], &mut Rng::new(1)).iter().map(|f| f.0.clone()).collect::<Vec<_>>()}));
        }
    });

    // ---- random byte strings in every form, raw strings with tricky bodies
    let n = run.opts.size(80_000, 4_000_000);
    run.parallel("bytes", n, |i, l| {
        let mut r = Rng::derive(seed, "c06-bytes", i);
        let len = r.below(40);
        let data: Vec<u8> = (0..len)
            .map(|_| match r.below(6) {
                0 => r.next() as u8,
                1 => b'"',
                2 => b'#',
                3 => b'\\',
                _ => b"ab c\n\r\xc3\xa9z0"[r.below(10)],
            })
            .collect();
        for (lt, form) in quoted_forms(&data, &mut r) {
            let lit = BytesLit::quoted(data.clone());
            let embs = bytes_embeddings(env, &lit, &lt, true);
            let (e, t, ctx) = &embs[r.below(embs.len())];
            check_text(run, l, "bytes", i, &eng, e, t, &format!("bytes-{}-{}", form, ctx));
        }
        if std::str::from_utf8(&data).is_ok() {
            // smallest hash count that works, then that +1, +2 and 255
            if let Some(h0) = (0u8..=4).find(|h| raw_ok(&data, *h)) {
                for h in [h0, h0 + 1, h0 + 2, 255] {
                    let hs = "#".repeat(h as usize);
                    let lt = format!("r{}\"{}\"{}", hs, std::str::from_utf8(&data).unwrap(), hs);
                    let lit = BytesLit {
                        data: data.clone(),
                        form: BytesForm::Raw(h),
                    };
                    let embs = bytes_embeddings(env, &lit, &lt, true);
                    let (e, t, ctx) = &embs[r.below(embs.len())];
                    check_text(run, l, "bytes", i, &eng, e, t, &format!("bytes-raw-{}", ctx));
                    l.count("raw_strings");
                }
            }
        }
        // map key (UTF-8 only, quoted form)
        if let Ok(k) = std::str::from_utf8(&data) {
            for (lt, _) in quoted_forms(&data, &mut r).into_iter().take(4) {
                let e = Expr::Cmp(
                    Path {
                        base: Base::Field(env.field("m_num_m").unwrap()),
                        idx: vec![Idx::Key(k.to_string())],
                    },
                    CmpOp::Ord(OrdOp::Eq, Lit::Int(1)),
                );
                let t = format!("m_num_m[{}] == 1", lt);
                check_text(run, l, "bytes", i, &eng, &e, &t, "map-key");
                let e2 = Expr::Cmp(
                    Path {
                        base: Base::Field(env.field("mm_str_o").unwrap()),
                        idx: vec![Idx::Key(k.to_string()), Idx::Key("x".into())],
                    },
                    CmpOp::Ord(OrdOp::Eq, Lit::Bytes(BytesLit::quoted(b"v".to_vec()))),
                );
                let t2 = format!("mm_str_o[ {} ][\"x\"] == \"v\"", lt);
                check_text(run, l, "bytes", i, &eng, &e2, &t2, "map-key2");
            }
        }
        run.distinct(hash_str(&format!("B|{:?}", data)));
        if i % 499 == 0 {
            run.sample("bytes", 3, || json!({"data": crate::rv::show_bytes(&data)}));
        }
    });

    // ---- raw string delimiter table: body `"` followed by k hashes, delimiter n hashes
    run.exhaustive("raw-delims", true);
    run.parallel("raw-delims", 6 * 6, |i, l| {
        let n = (i / 6) as u8; // delimiter hashes
        let k = (i % 6) as usize; // hashes after an inner quote
        let body = format!("a\"{}b", "#".repeat(k));
        let hs = "#".repeat(n as usize);
        let text_lit = format!("r{}\"{}\"{}", hs, body, hs);
        let t = format!("str_m == {} and tru_m", text_lit);
        if k < n as usize {
            let lit = BytesLit {
                data: body.as_bytes().to_vec(),
                form: BytesForm::Raw(n),
            };
            let e = Expr::Comb(
                LogOp::And,
                vec![
                    Expr::Cmp(fld(env, "str_m"), CmpOp::Ord(OrdOp::Eq, Lit::Bytes(lit))),
                    bare(env, "tru_m"),
                ],
            );
            check_text(run, l, "raw-delims", i, &eng, &e, &t, "raw-inner-quote");
        } else {
            // the inner quote terminates the literal early: whatever follows
            // is not a valid continuation, so the filter must be rejected
            check_rejected(run, l, "raw-delims", i, &eng, &t, "raw-early-terminator");
        }
        run.distinct(hash_str(&t));
    });

    // ---- IP addresses, CIDRs (every prefix length), ranges
    let n = run.opts.size(24_000, 1_200_000);
    run.parallel("ip", n, |i, l| {
        let mut r = Rng::derive(seed, "c06-ip", i);
        let a = gen_ip(&mut r);
        for (lt, form) in ip_spellings(&a) {
            for (e, t, ctx) in ip_embeddings(env, &a, &lt) {
                check_text(run, l, "ip", i, &eng, &e, &t, &format!("ip-{}-{}", form, ctx));
            }
            run.distinct(hash_str(&format!("a|{}", lt)));
        }
        // a range
        let b = loop {
            let b = gen_ip(&mut r);
            if b.is_ipv4() == a.is_ipv4() {
                break b;
            }
        };
        let (lo, hi) = if crate::refsem::cmp_ip(&a, &b) == Some(std::cmp::Ordering::Greater) {
            (b, a)
        } else {
            (a, b)
        };
        let sl = ip_spellings(&lo);
        let sh = ip_spellings(&hi);
        let t = format!("ipa_m in {{{}..{} 9.9.9.9}}", sl[r.below(sl.len())].0, sh[r.below(sh.len())].0);
        let e = Expr::Cmp(
            fld(env, "ipa_m"),
            CmpOp::InSet(SetLit::Ip(vec![IpItem::Range(lo, hi), IpItem::Addr("9.9.9.9".parse().unwrap())])),
        );
        check_text(run, l, "ip", i, &eng, &e, &t, "ip-range");
        if i % 199 == 0 {
            run.sample("ip", 3, || json!({"addr": a.to_string(), "range": t}));
        }
    });
    run.exhaustive("cidr", true);
    run.parallel("cidr", 33 + 129, |i, l| {
        let mut r = Rng::derive(seed, "c06-cidr", i);
        for rep in 0..8 {
            let (net, len): (IpAddr, u8) = if i < 33 {
                let len = i as u8;
                let x = if rep == 0 { u32::MAX } else { r.next() as u32 };
                (mask_ip(&IpAddr::V4(Ipv4Addr::from(x)), len), len)
            } else {
                let len = (i - 33) as u8;
                let x = if rep == 0 {
                    u128::MAX
                } else {
                    ((r.next() as u128) << 64) | r.next() as u128
                };
                (mask_ip(&IpAddr::V6(Ipv6Addr::from(x)), len), len)
            };
            for (sp, form) in ip_spellings(&net) {
                let t = format!("ipa_m in {{{}/{} 9.9.9.9}}", sp, len);
                let e = Expr::Cmp(
                    fld(env, "ipa_m"),
                    CmpOp::InSet(SetLit::Ip(vec![
                        IpItem::Cidr(net, len),
                        IpItem::Addr("9.9.9.9".parse().unwrap()),
                    ])),
                );
                check_text(run, l, "cidr", i, &eng, &e, &t, &format!("cidr-{}", form));
                run.distinct(hash_str(&t));
            }
        }
    });

    // ---- malformed literals
    let rej = rejections();
    run.exhaustive("rejections", true);
    run.note("rejection_table_size", json!(rej.len()));
    run.parallel("rejections", rej.len() as u64, |i, l| {
        let (what, text) = &rej[i as usize];
        check_rejected(run, l, "rejections", i, &eng, text, what);
        // the same literal inside parentheses and followed by an operator
        let t2 = format!("({}) or tru_m", text);
        check_rejected(run, l, "rejections", i, &eng, &t2, what);
        run.distinct(hash_str(text));
        if i % 17 == 0 {
            run.sample("rejections", 5, || json!({"text": text, "class": what}));
        }
    });
    // ---- systematically corrupted integer literals: one character inserted at
    // every position (or one deleted) in every radix form of every boundary value;
    // an independent recogniser of the documented forms decides what is still a literal
    fn ref_int(t: &str) -> Option<i64> {
        if let Some(h) = t.strip_prefix("0x") {
            if h.is_empty() || !h.bytes().all(|c| c.is_ascii_hexdigit()) {
                return None;
            }
            return i64::from_str_radix(h, 16).ok();
        }
        if t.starts_with('0') {
            if !t.bytes().all(|c| (b'0'..=b'7').contains(&c)) {
                return None;
            }
            return i64::from_str_radix(t, 8).ok();
        }
        let d = t.strip_prefix('-').unwrap_or(t);
        if d.is_empty() || !d.bytes().all(|c| c.is_ascii_digit()) {
            return None;
        }
        t.parse::<i64>().ok()
    }
    let mut corrupted: Vec<(String, String)> = Vec::new();
    for v in INT_POOL.iter().chain([10i64, 16, -16, 0o17, 0x7f].iter()) {
        let mut forms = vec![v.to_string()];
        if *v >= 0 {
            forms.push(format!("0x{:x}", v));
            forms.push(format!("0x{:X}", v));
            forms.push(format!("0{:o}", v));
        }
        for f in forms {
            let chars: Vec<char> = f.chars().collect();
            for pos in 0..=chars.len() {
                for ins in ['-', '+', ' ', '_', 'x', 'X', '0', '9', 'a', 'g', '.', 'o', 'b'] {
                    let mut c = chars.clone();
                    c.insert(pos, ins);
                    corrupted.push((f.clone(), c.into_iter().collect()));
                }
                if pos < chars.len() && chars.len() > 1 {
                    let mut c = chars.clone();
                    c.remove(pos);
                    corrupted.push((f.clone(), c.into_iter().collect()));
                }
            }
        }
    }
    corrupted.sort();
    corrupted.dedup();
    run.exhaustive("int-corruptions", true);
    run.note("int_corruptions", json!(corrupted.len()));
    let num_m = eng.scheme.get_field("num_m").unwrap();
    run.parallel("int-corruptions", corrupted.len() as u64, |i, l| {
        let (from, lit) = &corrupted[i as usize];
        // leading/trailing blanks are not part of the literal
        let want = if lit.trim_matches(' ') == lit.as_str() { ref_int(lit) } else { ref_int(lit.trim_matches(' ')) };
        for (k, tmpl) in ["num_m == {}", "(num_m == {}) and tru_m", "sum1(num_m, {}) == 0 or tru_m", "not num_m & {}", "num_m >= {} or num_m < {}"].iter().enumerate() {
            let text = tmpl.replace("{}", lit);
            l.evals += 1;
            let got = guard(|| eng.scheme.parse(&text).map(|a| a.compile()).map_err(|e| e.to_string()));
            match (&want, got) {
                (None, Ok(Err(_))) => l.count("corrupted_int_rejected"),
                (Some(v), Ok(Ok(f))) => {
                    l.count("corrupted_int_still_valid");
                    if k <= 1 {
                        // ... and denotes exactly that value
                        let mut ctx = wirefilter::ExecutionContext::<()>::new(&eng.scheme);
                        let mut r9 = Rng::new(9);
                        for fd in eng.env.fields.iter().filter(|f| !f.optional) {
                            let fr = eng.scheme.get_field(&fd.name).unwrap();
                            ctx.set_field_value(fr, gen_value(&mut r9, &fd.ty).to_lhs_unwrap()).unwrap();
                        }
                        let mut ok = true;
                        for (x, expect) in [(*v, true), (v.wrapping_add(1), false), (v.wrapping_sub(1), false)] {
                            ctx.set_field_value(num_m, wirefilter::LhsValue::Int(x)).unwrap();
                            if f.execute(&ctx).ok() != Some(expect) {
                                ok = false;
                            }
                        }
                        if !ok {
                            run.violation(
                                "C06/wrong-decoding/corrupted-int-form",
                                "round-trip",
                                "int-corruptions",
                                i,
                                json!({"text": text, "literal": lit, "denotes": v}),
                            );
                        }
                    }
                }
                (None, Ok(Ok(_))) => run.violation(
                    &format!("C06/malformed-literal-accepted/int-corruption/{}", if lit.contains('-') || lit.contains('+') { "sign" } else { "other" }),
                    "rejection",
                    "int-corruptions",
                    i,
                    json!({"text": text, "literal": lit, "corrupted_from": from}),
                ),
                (Some(v), Ok(Err(e))) => run.violation(
                    &format!("C06/valid-literal-rejected/int-corruption/{}", error_kind(&e)),
                    "round-trip",
                    "int-corruptions",
                    i,
                    json!({"text": text, "literal": lit, "denotes": v, "error": e}),
                ),
                (_, Err(p)) => run.violation(
                    &format!("C06/panic/{}", first_line(&p)),
                    "no-panic",
                    "int-corruptions",
                    i,
                    json!({"text": text, "panic": p}),
                ),
            }
        }
        run.distinct(hash_str(lit));
        if i % 1009 == 0 {
            run.sample("int-corruptions", 4, || json!({"literal": lit, "corrupted_from": from, "still_a_literal": want.is_some()}));
        }
    });
    let _ = RType::Bool;
}
