//! C02 — indexing, map-each, boolean-array logic, any/all; indexed value
//! expressions.

use super::common::*;
use crate::gen::*;
use crate::printer::{print_filter, print_value_expr};
use crate::prng::Rng;
use crate::refsem::{type_value_expr, Eval, ListState};
use crate::report::{guard, hash_str, Run};
use crate::rv::{res_from_engine, show_res};
use serde_json::json;

pub fn cfg() -> GenCfg {
    GenCfg {
        containers: true,
        calls: false,
        quant: true,
        lists: false,
        sets: true,
        contains: true,
        regex: false,
        wildcard: false,
        max_depth: 4,
        hex_bytes: true,
    }
}

pub fn run(run: &Run) {
    let envs: Vec<Eng> = (0..2).map(|v| Eng::new(rich_env(v))).collect();
    let seed = run.opts.seed;

    // ---- family 1: random quantified / element-wise filters
    let n = run.opts.size(120_000, 3_000_000);
    run.parallel("random", n, |i, l| {
        let mut r = Rng::derive(seed, "c02-random", i);
        let eng = &envs[r.below(envs.len())];
        let mut g = FilterGen::new(&eng.env, cfg(), Rng::derive(seed, "c02-gen", i));
        let expr = g.filter();
        let text = print_filter(&eng.env, &expr, Some(Rng::derive(seed, "c02-print", i)));
        let ctxs: Vec<(Ctx, ListState)> = (0..5)
            .map(|_| (gen_ctx(&mut r, &eng.env), ListState::default()))
            .collect();
        let canon = print_filter(&eng.env, &expr, None);
        let mut nontrivial = Vec::new();
        let mut ragged = 0u64;
        let mut elementwise = 0u64;
        check_filter_obs(
            run,
            l,
            "C02",
            "random",
            i,
            eng,
            &expr,
            &text,
            &ctxs,
            &mut |ev: &Eval<'_>, ci, _, _| {
                if ev.max_list >= 2 || ev.max_steps >= 2 {
                    nontrivial.push(ci);
                }
                if ev.ragged {
                    ragged += 1;
                }
                if ev.max_list > 0 {
                    elementwise += 1;
                }
            },
        );
        for ci in nontrivial {
            run.distinct(hash_str(&format!("r|{}|{}|{:?}", eng.env.nil_ne, canon, ctxs[ci].0)));
        }
        l.add("evals_with_ragged_operands", ragged);
        l.add("evals_with_map_each", elementwise);
        if i % 3001 == 0 {
            run.sample("random", 5, || json!({"filter": text}));
        }
    });

    // ---- family 1b: the same index / map-each paths over OWNED containers. A path
    // that starts at a field only ever borrows; the result of a function call is
    // owned, and the engine indexes owned and borrowed containers by different
    // code. Every case is run with the field itself and with the field passed
    // through the identity function of its type: both must agree with RefSem.
    const IDENT_FOR: &[(&str, &str)] = &[
        ("l_str_m", "idls1"), ("l_str_o", "idls2"), ("l_tru_m", "idlt1"), ("l_tru_o", "idlt2"),
        ("m_str_m", "idms1"), ("m_tru_m", "idmt1"), ("ll_str_m", "idlls1"), ("ll_tru_m", "idllt1"),
        ("lm_num_m", "idlmn1"), ("ml_num_m", "idmln1"), ("lll_num_m", "idllln1"), ("lll_num_m", "idllln2"),
    ];
    let n = run.opts.size(60_000, 1_500_000);
    run.parallel("owned", n, |i, l| {
        use crate::ast::*;
        use crate::rv::RType;
        let mut r = Rng::derive(seed, "c02-owned", i);
        let eng = &envs[r.below(envs.len())];
        let env = &eng.env;
        let (fname, func) = IDENT_FOR[r.below(IDENT_FOR.len())];
        let field = env.field(fname).unwrap();
        let func = env.func(func).unwrap();
        // an index path from the container down to a scalar (or down to a boolean
        // array, used directly as a quantifier argument)
        let mut idx = Vec::new();
        let mut cur = env.fields[field].ty.clone();
        let mut each = 0;
        let stop_at_bool_array = r.chance(1, 3);
        while let Some(e) = cur.elem() {
            if stop_at_bool_array && cur == RType::bool_arr() && each == 0 {
                break;
            }
            let step = match (&cur, r.below(4)) {
                (_, 0) => {
                    each += 1;
                    Idx::Each
                }
                (RType::Array(_), _) => Idx::Arr([0u32, 1, 2, 3, 7, u32::MAX][r.below(6)]),
                (RType::Map(_), _) => Idx::Key(r.pick(&FILTER_KEYS).to_string()),
                _ => unreachable!(),
            };
            idx.push(step);
            cur = e.clone();
        }
        let mut g = FilterGen::new(env, GenCfg { calls: true, ..cfg() }, Rng::derive(seed, "c02-owned-g", i));
        let mk = |base: Base, g: &mut FilterGen<'_>, r: &mut Rng| -> Expr {
            let path = Path { base, idx: idx.clone() };
            if cur == RType::bool_arr() && each == 0 {
                return Expr::Quant(if r.bool() { QOp::Any } else { QOp::All }, QArg::Path(path));
            }
            let cmp = Expr::Cmp(path, g.cmp_op(&cur));
            if each > 0 {
                Expr::Quant(if r.bool() { QOp::Any } else { QOp::All }, QArg::Logical(Box::new(cmp)))
            } else {
                cmp
            }
        };
        let mut r2 = r.clone();
        let mut g2 = FilterGen::new(env, GenCfg { calls: true, ..cfg() }, Rng::derive(seed, "c02-owned-g", i));
        let borrowed = mk(Base::Field(field), &mut g, &mut r).normalize();
        let owned = mk(
            Base::Call(Box::new(Call { func, args: vec![Arg::Path(Path::field(field))] })),
            &mut g2,
            &mut r2,
        )
        .normalize();
        if crate::refsem::type_filter(env, &owned).is_err() || crate::refsem::type_filter(env, &borrowed).is_err() {
            l.count("owned_case_ill_typed");
            return;
        }
        let ctxs: Vec<(Ctx, ListState)> = (0..4).map(|_| (gen_ctx(&mut r, env), ListState::default())).collect();
        for (e, what) in [(&borrowed, "borrowed"), (&owned, "owned")] {
            let text = print_filter(env, e, Some(Rng::derive(seed, "c02-owned-p", i)));
            let bad = check_filter(run, l, if what == "owned" { "C02/owned-container" } else { "C02" }, "owned", i, eng, e, &text, &ctxs);
            if bad == 0 {
                l.count(if what == "owned" { "owned_paths_checked" } else { "borrowed_paths_checked" });
            }
            if i % 5003 == 0 && what == "owned" {
                run.sample("owned", 4, || json!({"filter": text}));
            }
        }
        run.distinct(hash_str(&format!("o|{}|{:?}", fname, idx)));
    });

    // ---- family 1c: same-operator chains of 2..4 boolean-array operands with EVERY
    // combination of operand lengths 0..3 (and absent, for the optional ones): the
    // result is as long as the shortest operand, whatever the order of the lengths
    {
        use crate::ast::*;
        use crate::rv::{RType, RV};
        let eng = &envs[0];
        let env = &eng.env;
        let fld = |n: &str| env.field(n).unwrap();
        // operand k, the field that controls its length, and how to fill it
        let operands: Vec<(Expr, usize, RType)> = vec![
            (Expr::Cmp(Path::field(fld("l_tru_m")), CmpOp::IsTrue), fld("l_tru_m"), RType::Bool),
            (
                Expr::Cmp(Path { base: Base::Field(fld("l_num_m")), idx: vec![Idx::Each] }, CmpOp::Ord(OrdOp::Gt, Lit::Int(0))),
                fld("l_num_m"),
                RType::Int,
            ),
            (Expr::Cmp(Path::field(fld("l_tru_o")), CmpOp::IsTrue), fld("l_tru_o"), RType::Bool),
            (
                Expr::Cmp(Path { base: Base::Field(fld("l_str_o")), idx: vec![Idx::Each] }, CmpOp::Ord(OrdOp::Eq, Lit::Bytes(BytesLit::quoted(b"a".to_vec())))),
                fld("l_str_o"),
                RType::Bytes,
            ),
        ];
        // (operator, operand count, length code per operand: 0..=3 elements, 4 = absent)
        let mut cases: Vec<(LogOp, usize, Vec<usize>)> = Vec::new();
        for op in LOG_OPS {
            for n in 2..=4usize {
                let mut lens = vec![0usize; n];
                loop {
                    if lens.iter().enumerate().all(|(k, l)| *l < 4 || k >= 2) {
                        cases.push((op, n, lens.clone()));
                    }
                    let mut p = 0;
                    while p < n {
                        lens[p] += 1;
                        if lens[p] < 5 {
                            break;
                        }
                        lens[p] = 0;
                        p += 1;
                    }
                    if p == n {
                        break;
                    }
                }
            }
        }
        run.exhaustive("vector-chains", true);
        run.note("vector_chain_cases", json!(cases.len()));
        run.parallel("vector-chains", cases.len() as u64, |i, l| {
            let (op, n, lens) = &cases[i as usize];
            let mut r = Rng::derive(seed, "c02-vc", i);
            let chain = Expr::Comb(*op, operands[..*n].iter().map(|o| o.0.clone()).collect());
            let mut ctxs: Vec<(Ctx, ListState)> = Vec::new();
            for _ in 0..3 {
                let mut vals = gen_ctx(&mut r, env);
                for (k, len) in lens.iter().enumerate() {
                    let (_, field, ty) = &operands[k];
                    vals[*field] = if *len == 4 {
                        None
                    } else {
                        Some(RV::Array(
                            ty.clone(),
                            (0..*len)
                                .map(|_| match ty {
                                    RType::Bool => RV::Bool(r.bool()),
                                    RType::Int => RV::Int(if r.bool() { 1 } else { -1 }),
                                    _ => RV::Bytes(if r.bool() { b"a".to_vec() } else { b"b".to_vec() }),
                                })
                                .collect(),
                        ))
                    };
                }
                ctxs.push((vals, ListState::default()));
            }
            for q in [QOp::Any, QOp::All] {
                for negate in [false, true] {
                    let inner = if negate { Expr::Not(Box::new(Expr::paren(chain.clone()))) } else { chain.clone() };
                    let e = Expr::Quant(q, QArg::Logical(Box::new(inner))).normalize();
                    let text = print_filter(env, &e, Some(Rng::derive(seed, "c02-vcp", i)));
                    check_filter(run, l, "C02/vector-chain", "vector-chains", i, eng, &e, &text, &ctxs);
                }
            }
            run.distinct(hash_str(&format!("vc|{:?}|{:?}", op, lens)));
            if i % 997 == 0 {
                run.sample("vector-chains", 3, || json!({"operator": format!("{:?}", op), "operand_lengths(4=absent)": lens}));
            }
        });
    }

    // ---- family 2: indexed value expressions
    let n = run.opts.size(80_000, 1_500_000);
    run.parallel("values", n, |i, l| {
        let mut r = Rng::derive(seed, "c02-values", i);
        let eng = &envs[r.below(envs.len())];
        let mut g = FilterGen::new(&eng.env, cfg(), Rng::derive(seed, "c02-vgen", i));
        let Some(path) = g.value_expr() else { return };
        let text = print_value_expr(&eng.env, &path, Some(Rng::derive(seed, "c02-vprint", i)));
        let static_t = type_value_expr(&eng.env, &path).expect("generated value expr is typed");
        let ast = match guard(|| eng.scheme.parse_value(&text).map_err(|e| e.to_string())) {
            Ok(Ok(a)) => a,
            Ok(Err(e)) => {
                run.violation(
                    &format!("C02/value-parse-rejects/{}", error_kind(&e)),
                    "accepts-well-typed",
                    "values",
                    i,
                    json!({"value_expr": text, "error": e}),
                );
                return;
            }
            Err(p) => {
                run.violation(
                    &format!("C02/value-parse-panic/{}", first_line(&p)),
                    "no-panic",
                    "values",
                    i,
                    json!({"value_expr": text, "panic": p}),
                );
                return;
            }
        };
        let fv = match guard(|| ast.compile()) {
            Ok(f) => f,
            Err(p) => {
                run.violation(
                    &format!("C02/value-compile-panic/{}", first_line(&p)),
                    "no-panic",
                    "values",
                    i,
                    json!({"value_expr": text, "panic": p}),
                );
                return;
            }
        };
        for _ in 0..4 {
            let vals = gen_ctx(&mut r, &eng.env);
            let lists = ListState::default();
            let mut ev = Eval::new(&eng.env, &vals, &lists);
            let expected = ev.path_value(&path);
            let ectx = eng.ctx(&vals, &lists);
            l.evals += 1;
            let got = guard(|| fv.execute(&ectx).map(|r| res_from_engine(&r)));
            let got = match got {
                Ok(Ok(Ok(g))) => g,
                Ok(Ok(Err(e))) => {
                    run.violation(
                        &format!("C02/value-ill-formed/{}", path_shape(&path)),
                        "deep-type-invariant",
                        "values",
                        i,
                        json!({"value_expr": text, "error": e, "ctx": show_ctx(&eng.env, &vals)}),
                    );
                    continue;
                }
                Ok(Err(_)) => {
                    run.violation(
                        "C02/value-scheme-mismatch",
                        "executes",
                        "values",
                        i,
                        json!({"value_expr": text}),
                    );
                    continue;
                }
                Err(p) => {
                    run.violation(
                        &format!("C02/value-execute-panic/{}", first_line(&p)),
                        "no-panic",
                        "values",
                        i,
                        json!({"value_expr": text, "panic": p, "ctx": show_ctx(&eng.env, &vals)}),
                    );
                    continue;
                }
            };
            if got != expected {
                run.violation(
                    &format!("C02/value-wrong-result/{}", path_shape(&path)),
                    "refsem-value",
                    "values",
                    i,
                    json!({
                        "value_expr": text,
                        "expected": show_res(&expected),
                        "got": show_res(&got),
                        "ctx": show_ctx(&eng.env, &vals),
                    }),
                );
            }
            match &expected {
                Ok(v) if v.ty() != static_t => {
                    run.violation(
                        "C02/refsem-self-check",
                        "harness",
                        "values",
                        i,
                        json!({"value_expr": text}),
                    );
                }
                _ => {}
            }
            if path.idx.len() >= 2 || (expected.is_ok() && !path.idx.is_empty()) {
                run.distinct(hash_str(&format!("v|{}|{:?}", text, vals)));
            }
            if expected.is_ok() {
                l.count("value_present");
            } else {
                l.count("value_absent");
            }
        }
        if i % 2003 == 0 {
            run.sample("values", 4, || json!({"value_expr": text}));
        }
    });
}
