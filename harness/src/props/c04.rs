//! C04 — parsing accepts exactly the well-typed filters; accepted ones never
//! fail later.

use super::common::*;
use crate::ast::*;
use crate::engine::take_monitor_errors;
use crate::gen::*;
use crate::printer::{print_filter, print_value_expr};
use crate::prng::Rng;
use crate::refsem::{type_filter, type_value_expr, Eval, ListState};
use crate::report::{guard, hash_str, Local, Run};
use crate::rv::{res_from_engine, RType};
use serde_json::json;
use wirefilter::GetType;

/// scheme for C04: rich fields, functions, lists for Int and Bytes only (so
/// that "no list for the type" exists for Ip)
fn c04_env() -> Env {
    let mut e = rich_env(0);
    e.lists = vec![
        (RType::Int, ListKind::Harness),
        (RType::Bytes, ListKind::Harness),
    ];
    e
}

/// Compare the engine's accept/reject decision with the expectation and, when
/// accepted, run the program on a few contexts.
#[allow(clippy::too_many_arguments)]
fn check_decision(
    run: &Run,
    l: &mut Local,
    fam: &str,
    i: u64,
    eng: &Eng,
    text: &str,
    expect_ok: bool,
    why: &str,
    cell: &str,
    expr: Option<&Expr>,
    r: &mut Rng,
) {
    l.evals += 1;
    let parsed = guard(|| eng.scheme.parse(text).map_err(|e| e.to_string()));
    match parsed {
        Err(p) => run.violation(
            &format!("C04/panic-in-parse/{}", first_line(&p)),
            "no-panic",
            fam,
            i,
            json!({"filter": text, "panic": p}),
        ),
        Ok(Err(e)) => {
            if expect_ok {
                run.violation(
                    &format!("C04/well-typed-rejected/{}/{}", cell, error_kind(&e)),
                    "accept-iff-well-typed",
                    fam,
                    i,
                    json!({"filter": text, "error": e}),
                );
            }
            l.count("rejected");
        }
        Ok(Ok(ast)) => {
            l.count("accepted");
            if !expect_ok {
                run.violation(
                    &format!("C04/ill-typed-accepted/{}", cell),
                    "accept-iff-well-typed",
                    fam,
                    i,
                    json!({"filter": text, "typing_rule_violated": why}),
                );
            }
            // every accepted filter compiles and executes without panicking
            let filter = match guard(|| ast.compile()) {
                Ok(f) => f,
                Err(p) => {
                    run.violation(
                        &format!("C04/accepted-filter-panics-in-compile/{}", first_line(&p)),
                        "accepted-never-fails",
                        fam,
                        i,
                        json!({"filter": text, "panic": p, "expected_accept": expect_ok}),
                    );
                    return;
                }
            };
            for _ in 0..3 {
                let vals = gen_ctx(r, &eng.env);
                let lists = gen_lists(r, &eng.env);
                let ectx = eng.ctx(&vals, &lists);
                l.evals += 1;
                let got = guard(|| filter.execute(&ectx));
                let _ = take_monitor_errors();
                match got {
                    Ok(Ok(b)) => {
                        if let (Some(e), true) = (expr, expect_ok) {
                            let mut ev = Eval::new(&eng.env, &vals, &lists);
                            let want = ev.filter(e);
                            if ev.unsupported.is_none() && want != b {
                                run.violation(
                                    &format!("C04/wrong-result/{}", shape(e, 2)),
                                    "refsem-result",
                                    fam,
                                    i,
                                    json!({"filter": text, "expected": want, "got": b, "ctx": show_ctx(&eng.env, &vals)}),
                                );
                            }
                        }
                    }
                    Ok(Err(_)) => run.violation("C04/scheme-mismatch", "executes", fam, i, json!({"filter": text})),
                    Err(p) => {
                        run.violation(
                            &format!("C04/accepted-filter-panics-in-execute/{}", first_line(&p)),
                            "accepted-never-fails",
                            fam,
                            i,
                            json!({"filter": text, "panic": p, "expected_accept": expect_ok,
                                   "ctx": show_ctx(&eng.env, &vals)}),
                        );
                        break;
                    }
                }
            }
        }
    }
}

// ---------------------------------------------------------------------------
// matrix 1: left type x operator x right-hand-side kind

#[derive(Clone, Copy, Debug, PartialEq, Eq)]
enum Rhs {
    Int,
    QuotedBytes,
    RawBytes,
    HexBytes,
    Ip4,
    Ip6,
    IntSet,
    BytesSet,
    IpSet,
    EmptySet,
    List,
    Nothing,
}
const RHS: [Rhs; 12] = [
    Rhs::Int,
    Rhs::QuotedBytes,
    Rhs::RawBytes,
    Rhs::HexBytes,
    Rhs::Ip4,
    Rhs::Ip6,
    Rhs::IntSet,
    Rhs::BytesSet,
    Rhs::IpSet,
    Rhs::EmptySet,
    Rhs::List,
    Rhs::Nothing,
];

fn rhs_text(r: Rhs) -> &'static str {
    match r {
        Rhs::Int => "7",
        Rhs::QuotedBytes => "\"ab\"",
        Rhs::RawBytes => "r\"ab\"",
        Rhs::HexBytes => "61:62:63",
        Rhs::Ip4 => "10.0.0.1",
        Rhs::Ip6 => "2001:db8::1",
        Rhs::IntSet => "{1 3..5}",
        Rhs::BytesSet => "{\"a\" \"b\"}",
        Rhs::IpSet => "{10.0.0.0/8 10.0.0.1..10.0.0.9 2001:db8::/32}",
        Rhs::EmptySet => "{}",
        Rhs::List => "$a",
        Rhs::Nothing => "",
    }
}

const OPS: [(&str, &str); 15] = [
    ("eq", "=="),
    ("ne", "!="),
    ("ge", ">="),
    ("le", "<="),
    ("gt", ">"),
    ("lt", "<"),
    ("bitand", "&"),
    ("bitand", "bitwise_and"),
    ("contains", "contains"),
    ("matches", "matches"),
    ("matches", "~"),
    ("wildcard", "wildcard"),
    ("strict", "strict wildcard"),
    ("in", "in"),
    ("none", ""),
];

/// Is `<lhs of element type t> <op> <rhs>` a well-typed comparison? The rules
/// are the ones listed in the property statement.
fn cmp_ok(env: &Env, t: &RType, op: &str, rhs: Rhs) -> (bool, &'static str) {
    use Rhs::*;
    let lit_matches = |t: &RType, r: Rhs| match (t, r) {
        (RType::Int, Int) => true,
        (RType::Bytes, QuotedBytes | RawBytes | HexBytes) => true,
        (RType::Ip, Ip4 | Ip6) => true,
        _ => false,
    };
    match op {
        "eq" | "ne" | "ge" | "le" | "gt" | "lt" => (
            matches!(t, RType::Int | RType::Bytes | RType::Ip) && lit_matches(t, rhs),
            "ordering operators need an Int/Bytes/Ip left side and one literal of that type",
        ),
        "bitand" => (*t == RType::Int && rhs == Int, "bitwise and needs Int and an integer literal"),
        "contains" => (
            *t == RType::Bytes && matches!(rhs, QuotedBytes | RawBytes | HexBytes),
            "contains needs Bytes and a byte-string literal",
        ),
        "matches" | "wildcard" | "strict" => (
            *t == RType::Bytes && matches!(rhs, QuotedBytes | RawBytes),
            "pattern operators need Bytes and a quoted or raw string",
        ),
        "in" => (
            match (t, rhs) {
                (RType::Int, IntSet | EmptySet) => true,
                (RType::Bytes, BytesSet | EmptySet) => true,
                (RType::Ip, IpSet | EmptySet) => true,
                (RType::Int | RType::Bytes | RType::Ip, List) => env.has_list(t),
                _ => false,
            },
            "`in` needs an Int/Bytes/Ip left side and a brace list of that type or a registered $list",
        ),
        "none" => (
            rhs == Nothing && (*t == RType::Bool),
            "only a boolean can stand without an operator",
        ),
        _ => unreachable!(),
    }
}

struct Lhs {
    text: &'static str,
    /// element type the operator applies to
    elem: RType,
    /// the comparison yields a boolean array (path contains [*])
    each: bool,
}

fn lhs_table() -> Vec<Lhs> {
    let a = RType::arr;
    let m = RType::map;
    vec![
        Lhs { text: "num_m", elem: RType::Int, each: false },
        Lhs { text: "str_o", elem: RType::Bytes, each: false },
        Lhs { text: "ipa_m", elem: RType::Ip, each: false },
        Lhs { text: "tru_o", elem: RType::Bool, each: false },
        Lhs { text: "l_num_m", elem: a(RType::Int), each: false },
        Lhs { text: "m_str_m", elem: m(RType::Bytes), each: false },
        Lhs { text: "l_tru_m", elem: a(RType::Bool), each: false },
        Lhs { text: "ll_tru_m", elem: a(a(RType::Bool)), each: false },
        Lhs { text: "l_num_m[0]", elem: RType::Int, each: false },
        Lhs { text: "m_str_m[\"k\"]", elem: RType::Bytes, each: false },
        Lhs { text: "l_num_m[*]", elem: RType::Int, each: true },
        Lhs { text: "m_ipa_m[*]", elem: RType::Ip, each: true },
        Lhs { text: "l_tru_m[*]", elem: RType::Bool, each: true },
        Lhs { text: "ll_tru_m[*]", elem: a(RType::Bool), each: true },
        Lhs { text: "ll_str_m[*][*]", elem: RType::Bytes, each: true },
        Lhs { text: "lens1(str_m)", elem: RType::Int, each: false },
        Lhs { text: "upper1(l_str_m[*])[*]", elem: RType::Bytes, each: true },
        Lhs { text: "upper1(l_str_m[*])", elem: a(RType::Bytes), each: false },
    ]
}

pub fn run(run: &Run) {
    let eng = Eng::new(c04_env());
    let env = &eng.env;
    let seed = run.opts.seed;

    // ---- matrix 1
    let lhs = lhs_table();
    let cells = lhs.len() * OPS.len() * RHS.len();
    run.exhaustive("op-matrix", true);
    run.note("op_matrix_cells", json!(cells));
    run.parallel("op-matrix", cells as u64, |i, l| {
        let li = i as usize / (OPS.len() * RHS.len());
        let oi = (i as usize / RHS.len()) % OPS.len();
        let ri = i as usize % RHS.len();
        let lh = &lhs[li];
        let (op, op_text) = OPS[oi];
        let rhs = RHS[ri];
        if op == "none" && rhs != Rhs::Nothing {
            return; // "<lhs> <literal>" without operator: covered by the syntax monitors
        }
        let (mut ok, why) = cmp_ok(env, &lh.elem, op, rhs);
        // a boolean array may also stand without operator, unless it is mapped
        if op == "none" && lh.elem == RType::bool_arr() && !lh.each {
            ok = true;
        }
        let cmp_text = format!("{} {} {}", lh.text, op_text, rhs_text(rhs));
        let yields_array = lh.each || (op == "none" && lh.elem == RType::bool_arr());
        let mut r = Rng::derive(seed, "c04-m1", i);
        // bare at top level: needs a plain boolean
        let cell = format!("op-matrix/{}/{}/{:?}", lh.elem.short().replace(['<', '>'], "_"), op, rhs);
        check_decision(
            run, l, "op-matrix", i, &eng, &cmp_text,
            ok && !yields_array,
            if ok { "top level must be a plain boolean" } else { why },
            &format!("{}/top", cell), None, &mut r,
        );
        // inside any(...): needs a boolean array
        let any_text = if op == "none" {
            // without an operator the text is a comparison only in expression position
            format!("any(({}))", cmp_text)
        } else {
            format!("any({})", cmp_text)
        };
        check_decision(
            run, l, "op-matrix", i, &eng, &any_text,
            ok && yields_array,
            if ok { "quantifier argument must be a boolean array" } else { why },
            &format!("{}/any", cell), None, &mut r,
        );
        // combined with a plain boolean
        let and_text = format!("tru_m and {}", cmp_text);
        check_decision(
            run, l, "op-matrix", i, &eng, &and_text,
            ok && !yields_array,
            if ok { "operands of a logical operator must both be plain booleans or both arrays" } else { why },
            &format!("{}/and", cell), None, &mut r,
        );
        run.distinct(hash_str(&cmp_text));
        if i % 211 == 0 {
            run.sample("op-matrix", 6, || json!({"filter": cmp_text, "well_typed": ok, "yields_array": yields_array}));
        }
    });

    // ---- matrix 2: container type x index kind (two steps deep)
    let bases: Vec<(&str, RType)> = vec![
        ("num_m", RType::Int),
        ("str_m", RType::Bytes),
        ("l_num_m", RType::arr(RType::Int)),
        ("m_num_m", RType::map(RType::Int)),
        ("ll_num_o", RType::arr(RType::arr(RType::Int))),
        ("lm_num_m", RType::arr(RType::map(RType::Int))),
        ("ml_num_m", RType::map(RType::arr(RType::Int))),
        ("mlm_num_o", RType::map(RType::arr(RType::map(RType::Int)))),
        ("idn1(num_m)", RType::Int),
        ("idls1(l_str_m)", RType::arr(RType::Bytes)),
    ];
    #[derive(Clone, Copy, PartialEq, Debug)]
    enum Ix {
        None,
        Arr,
        Key,
        Each,
        Neg,
        TooBig,
        RawKey,
        NonUtf8Key,
        Empty,
    }
    let ixs = [Ix::None, Ix::Arr, Ix::Key, Ix::Each, Ix::Neg, Ix::TooBig, Ix::RawKey, Ix::NonUtf8Key, Ix::Empty];
    let ix_text = |x: Ix| match x {
        Ix::None => "",
        Ix::Arr => "[1]",
        Ix::Key => "[\"k\"]",
        Ix::Each => "[*]",
        Ix::Neg => "[-1]",
        Ix::TooBig => "[4294967296]",
        Ix::RawKey => "[r\"k\"]",
        Ix::NonUtf8Key => "[\"\\xff\"]",
        Ix::Empty => "[]",
    };
    let n2 = bases.len() * ixs.len() * ixs.len();
    run.exhaustive("index-matrix", true);
    run.parallel("index-matrix", n2 as u64, |i, l| {
        let bi = i as usize / (ixs.len() * ixs.len());
        let i1 = ixs[(i as usize / ixs.len()) % ixs.len()];
        let i2 = ixs[i as usize % ixs.len()];
        if i1 == Ix::None && i2 != Ix::None {
            return;
        }
        let (bt, ty) = &bases[bi];
        let mut t = Some(ty.clone());
        let mut each = false;
        for ix in [i1, i2] {
            t = match (ix, t) {
                (Ix::None, t) => t,
                (Ix::Arr, Some(RType::Array(e))) => Some(*e),
                (Ix::Key, Some(RType::Map(e))) => Some(*e),
                (Ix::Each, Some(RType::Array(e))) | (Ix::Each, Some(RType::Map(e))) => {
                    each = true;
                    Some(*e)
                }
                _ => None,
            };
        }
        let path = format!("{}{}{}", bt, ix_text(i1), ix_text(i2));
        // complete the path to an Int (or Bytes) comparison where possible
        let (text, ok) = match &t {
            Some(RType::Int) => (format!("{} == 7", path), true),
            Some(RType::Bytes) => (format!("{} == \"a\"", path), true),
            Some(_) => (format!("{} == 7", path), false), // still a container: no ordering
            None => (format!("{} == 7", path), false),
        };
        let mut r = Rng::derive(seed, "c04-m2", i);
        let cell = format!("index-matrix/{}/{:?}/{:?}", ty.short().replace(['<', '>'], "_"), i1, i2);
        if each {
            check_decision(run, l, "index-matrix", i, &eng, &format!("all({})", text), ok,
                "index kind must match the container", &cell, None, &mut r);
            check_decision(run, l, "index-matrix", i, &eng, &text, false,
                "top level must be a plain boolean", &format!("{}/top", cell), None, &mut r);
        } else {
            check_decision(run, l, "index-matrix", i, &eng, &text, ok,
                "index kind must match the container", &cell, None, &mut r);
        }
        run.distinct(hash_str(&text));
    });

    // ---- matrix 3: operand type pairs x logical operator
    let operands: Vec<(&str, Option<bool>)> = vec![
        // text, Some(is_array) for expressions, None for non-expressions
        ("tru_m", Some(false)),
        ("num_m == 1", Some(false)),
        ("not tru_o", Some(false)),
        ("any(l_tru_m)", Some(false)),
        ("l_tru_m", Some(true)),
        ("l_num_m[*] == 1", Some(true)),
        ("not l_tru_o", Some(true)),
        ("(ll_tru_m[0])", Some(true)),
        ("str_m", None),
        ("num_m", None),
        ("l_num_m", None),
        ("m_num_m[*]", None),
    ];
    let lops = ["and", "&&", "or", "||", "xor", "^^"];
    let n3 = operands.len() * operands.len() * lops.len();
    run.exhaustive("operand-matrix", true);
    run.parallel("operand-matrix", n3 as u64, |i, l| {
        let a = &operands[i as usize / (operands.len() * lops.len())];
        let b = &operands[(i as usize / lops.len()) % operands.len()];
        let op = lops[i as usize % lops.len()];
        let kind = match (a.1, b.1) {
            (Some(x), Some(y)) if x == y => Some(x),
            _ => None,
        };
        let text = format!("{} {} {}", a.0, op, b.0);
        let mut r = Rng::derive(seed, "c04-m3", i);
        let cell = format!("operand-matrix/{:?}-{:?}", a.1, b.1);
        check_decision(run, l, "operand-matrix", i, &eng, &text, kind == Some(false),
            "both operands plain booleans (top level)", &format!("{}/top", cell), None, &mut r);
        check_decision(run, l, "operand-matrix", i, &eng, &format!("any(({}))", text), kind == Some(true),
            "both operands boolean arrays (inside a quantifier)", &format!("{}/any", cell), None, &mut r);
        check_decision(run, l, "operand-matrix", i, &eng, &format!("not ({}) or tru_m", text), kind == Some(false),
            "both operands plain booleans (nested)", &format!("{}/nested", cell), None, &mut r);
        run.distinct(hash_str(&text));
    });

    // ---- matrix 3b: three operands (same operator chains and mixed precedence)
    let chains: [(&str, &str); 5] = [("and", "and"), ("or", "or"), ("xor", "xor"), ("and", "or"), ("or", "and")];
    let n3b = operands.len() * operands.len() * operands.len() * chains.len();
    run.exhaustive("operand-triples", true);
    run.parallel("operand-triples", n3b as u64, |i, l| {
        let mut x = i as usize;
        let ch = chains[x % chains.len()];
        x /= chains.len();
        let c = &operands[x % operands.len()];
        x /= operands.len();
        let b = &operands[x % operands.len()];
        x /= operands.len();
        let a = &operands[x];
        let kind = match (a.1, b.1, c.1) {
            (Some(x), Some(y), Some(z)) if x == y && y == z => Some(x),
            _ => None,
        };
        let text = format!("{} {} {} {} {}", a.0, ch.0, b.0, ch.1, c.0);
        let mut r = Rng::derive(seed, "c04-m3b", i);
        let cell = format!("operand-triples/{:?}-{:?}-{:?}", a.1, b.1, c.1);
        check_decision(run, l, "operand-triples", i, &eng, &text, kind == Some(false),
            "every operand of a logical chain must be a plain boolean (top level)", &format!("{}/top", cell), None, &mut r);
        check_decision(run, l, "operand-triples", i, &eng, &format!("all(({}))", text), kind == Some(true),
            "every operand of a logical chain must be a boolean array (inside a quantifier)", &format!("{}/all", cell), None, &mut r);
        run.distinct(hash_str(&text));
    });

    // ---- matrix 4: quantifier argument kinds
    let qargs: Vec<(&str, bool, &str)> = vec![
        ("l_tru_m", true, "boolean array field"),
        ("l_tru_o", true, "optional boolean array field"),
        ("ll_tru_m[0]", true, "indexed boolean array"),
        ("ml_tru_o[\"k\"]", true, "keyed boolean array"),
        ("lll_tru_o[0][1]", true, "doubly indexed boolean array"),
        ("idlt1(l_tru_m)", true, "call returning a boolean array"),
        ("neg1(l_tru_m[*])", true, "mapped call returning booleans"),
        ("l_num_m[*] == 1", true, "mapped comparison"),
        ("l_tru_m[*]", false, "bare x[*]: [*] outside a call's first argument"),
        ("ll_tru_m[*]", false, "bare x[*] over an array of boolean arrays"),
        ("ml_tru_o[*]", false, "bare x[*] over a map of boolean arrays"),
        ("lll_tru_o[*][0]", false, "bare path with [*]"),
        ("lll_tru_o[0][*]", false, "bare path with trailing [*]"),
        ("not l_tru_m", true, "negated boolean array"),
        ("(l_tru_m)", true, "parenthesised boolean array"),
        ("(l_tru_m[*])", true, "parenthesised mapped boolean comparison"),
        ("not l_tru_m[*]", true, "negated mapped booleans"),
        ("(l_tru_m and l_tru_o)", true, "element-wise and"),
        ("tru_m", false, "plain boolean"),
        ("num_m == 1", false, "plain comparison"),
        ("num_m", false, "integer field"),
        ("l_num_m", false, "integer array"),
        ("m_tru_m", false, "map of booleans"),
        ("1", false, "integer literal"),
        ("\"a\"", false, "string literal"),
        ("any(l_tru_m)", false, "nested quantifier (a plain boolean)"),
        ("(any(l_tru_m))", false, "parenthesised plain boolean"),
        ("", false, "no argument"),
        ("l_tru_m, l_tru_m", false, "two arguments"),
    ];
    run.exhaustive("quantifier-matrix", true);
    run.parallel("quantifier-matrix", qargs.len() as u64 * 2, |i, l| {
        let (arg, ok, what) = qargs[i as usize / 2];
        let q = if i % 2 == 0 { "any" } else { "all" };
        let mut r = Rng::derive(seed, "c04-m4", i);
        let text = format!("{}({})", q, arg);
        check_decision(run, l, "quantifier-matrix", i, &eng, &text, ok,
            "quantifier argument must be a boolean array ([*] only inside comparisons and first call arguments)",
            &format!("quantifier-matrix/{}", what), None, &mut r);
        let text2 = format!("tru_m or not {} ( {} )", q, arg);
        check_decision(run, l, "quantifier-matrix", i, &eng, &text2, ok,
            "quantifier argument must be a boolean array", &format!("quantifier-matrix/{}/nested", what), None, &mut r);
        run.distinct(hash_str(&text));
        if i % 7 == 0 {
            run.sample("quantifier-matrix", 5, || json!({"filter": text, "well_typed": ok, "kind": what}));
        }
    });

    // ---- matrix 5: function signature x argument shape
    let calls: Vec<(&str, bool, &str)> = vec![
        // arity
        ("lens1() == 1", false, "arity-0-of-1"),
        ("lens1(str_m) == 1", true, "arity-ok"),
        ("lens1(str_m, str_m) == 1", false, "arity+1"),
        ("sum1() == 1", false, "arity-below-min"),
        ("sum1(num_m) == 1", true, "optional-omitted"),
        ("sum1(num_m, 2) == 1", true, "one-optional"),
        ("sum1(num_m, 2, 3) == 1", true, "all-optionals"),
        ("sum1(num_m, 2, 3, 4) == 1", false, "arity-above-max"),
        ("glue1(str_m) == \"a\"", false, "mandatory-missing"),
        ("glue1(str_m, \"x\") == \"a\"", true, "mandatory-only"),
        ("join1(str_m) == \"a\"", false, "concat-needs-two"),
        ("join1(str_m, str_o) == \"a\"", true, "concat-two"),
        ("join1(str_m, str_o, \"x\", http.host) == \"a\"", true, "concat-many"),
        // kinds
        ("glue1(\"lit\", \"x\") == \"a\"", false, "literal-for-field-only"),
        ("glue1(str_m, str_o) == \"a\"", false, "field-for-literal-only"),
        ("glue1(str_m, upper1(str_o)) == \"a\"", false, "call-for-literal-only"),
        ("glue1(str_m, \"x\", \"y\") == \"a\"", true, "both-kind-literal"),
        ("glue1(str_m, \"x\", str_o) == \"a\"", true, "both-kind-field"),
        ("sum1(num_m, 2, num_o) == 1", false, "field-for-literal-only-optional"),
        ("lenls1(l_str_m) == 1", true, "field-array"),
        ("neg1(tru_m)", true, "bool-field-arg"),
        ("neg1((tru_m or tru_o))", true, "logical-arg"),
        ("neg1(num_m == 1)", true, "comparison-arg"),
        ("neg1(not tru_m)", true, "negated-arg"),
        ("neg1(any(l_tru_m))", true, "quantifier-arg"),
        ("tally1((l_tru_m and l_tru_o)) == 1", true, "array-logical-arg"),
        ("tally1(l_num_m[*] == 1) == 1", true, "mapped-comparison-arg"),
        // types
        ("lens1(num_m) == 1", false, "int-for-bytes"),
        ("lens1(7) == 1", false, "int-literal-for-bytes"),
        ("idn1(\"a\") == 1", false, "bytes-literal-for-int"),
        ("idi1(1.2.3.4) == 1.2.3.4", true, "ip-literal"),
        ("idi1(7) == 1.2.3.4", false, "int-literal-for-ip"),
        ("idn1(1.2.3.4) == 1", false, "ip-literal-for-int"),
        ("lenls1(l_num_m) == 1", false, "wrong-element-type"),
        ("lenls1(str_m) == 1", false, "scalar-for-array"),
        ("lens1(l_str_m) == 1", false, "array-for-scalar"),
        ("neg1(l_tru_m)", false, "array-for-bool"),
        ("tally1(tru_m) == 1", false, "bool-for-array"),
        ("tally1((tru_m)) == 1", false, "bool-logical-for-array"),
        ("neg1((l_tru_m))", false, "array-logical-for-bool"),
        ("join1(str_m, num_m) == \"a\"", false, "concat-mixed-types"),
        ("join1(num_m, num_o) == 1", false, "concat-of-ints"),
        ("join1(l_str_m, l_num_m)[0] == \"a\"", false, "concat-arrays-of-different-types"),
        ("join1(l_str_m, ll_str_m[0])[0] == \"a\"", true, "concat-arrays"),
        ("join1(m_str_m, m_str_o)[\"k\"] == \"a\"", false, "concat-of-maps"),
        // map-each placement
        ("any(lens1(l_str_m[*])[*] == 1)", true, "mapped-first-arg"),
        ("any(sum1(l_num_m[*], 2)[*] == 1)", true, "mapped-first-arg-with-extra"),
        ("any(sum1(num_m, l_num_m[*])[*] == 1)", false, "mapped-second-arg"),
        ("sum1(num_m, l_num_m[*]) == 1", false, "mapped-second-arg-scalar-use"),
        ("any(glue1(l_str_m[*], \"x\", l_str_o[*])[*] == \"a\")", false, "mapped-third-arg"),
        ("lens1(l_str_m[*]) == 1", false, "mapped-call-compared-as-scalar"),
        ("lens1(l_str_m[*])[0] == 1", true, "mapped-call-indexed"),
        ("any(lens1(ll_str_m[*][*])[*] == 1)", true, "doubly-mapped-first-arg"),
        ("any(lens1(ll_str_m[*][0])[*] == 1)", true, "mapped-then-indexed-first-arg"),
        ("any(lens1(m_str_m[*])[*] == 1)", true, "mapped-over-map"),
        ("any(lenls1(ll_str_m[*])[*] == 1)", true, "mapped-over-array-of-arrays"),
        // results used like fields
        ("upper1(str_m)[0] == \"a\"", false, "index-into-scalar-result"),
        ("idls1(l_str_m)[0] == \"a\"", true, "index-into-array-result"),
        ("idms1(m_str_m)[\"k\"] == \"a\"", true, "key-into-map-result"),
        ("idms1(m_str_m)[0] == \"a\"", false, "index-into-map-result"),
        ("idls1(l_str_m) == \"a\"", false, "array-result-compared"),
        // namespaces
        ("nosuchfn(str_m) == 1", false, "unknown-function"),
        ("str_m(str_m) == 1", false, "field-called"),
        ("lens1 == 1", false, "function-as-field"),
        ("lens1(nosuchfield) == 1", false, "unknown-field-argument"),
        // the Map(Bool)-typed parameter
        ("any((idmt1(m_tru_m)[*]))", true, "map-of-bool-field-arg"),
        ("any(idmt1(m_tru_m)[*])", false, "bare-mapped-path-as-quantifier-arg"),
        ("any((idmt1((m_tru_m))[*]))", false, "bare-map-of-bool-as-logical-arg"),
        ("any((idmt1(not m_tru_m)[*]))", false, "negated-map-of-bool-as-logical-arg"),
    ];
    run.exhaustive("call-matrix", true);
    run.parallel("call-matrix", calls.len() as u64, |i, l| {
        let (text, ok, what) = calls[i as usize];
        let mut r = Rng::derive(seed, "c04-m5", i);
        check_decision(run, l, "call-matrix", i, &eng, text, ok,
            "function arity / argument kind / argument type / [*] only in the first argument",
            &format!("call-matrix/{}", what), None, &mut r);
        let nested = format!("tru_m and ({})", text);
        check_decision(run, l, "call-matrix", i, &eng, &nested, ok,
            "function arity / argument kind / argument type", &format!("call-matrix/{}/nested", what), None, &mut r);
        run.distinct(hash_str(text));
        if i % 9 == 0 {
            run.sample("call-matrix", 6, || json!({"filter": text, "well_typed": ok, "kind": what}));
        }
    });

    // ---- value expressions: accepted iff own path free of [*]; static type; results
    let vexprs: Vec<(&str, bool)> = vec![
        ("num_m", true),
        ("l_num_m", true),
        ("l_num_m[0]", true),
        ("m_str_m[\"k\"]", true),
        ("lll_tru_o[0][1]", true),
        ("l_num_m[*]", false),
        ("ll_str_m[*][0]", false),
        ("ll_str_m[0][*]", false),
        ("lens1(str_m)", true),
        ("lens1(l_str_m[*])", true),
        ("lens1(l_str_m[*])[0]", true),
        ("lens1(l_str_m[*])[*]", false),
        ("upper1(ll_str_m[*][*])", true),
        ("join1(l_str_m, l_str_o)", true),
        ("num_m == 1", false),
        ("tru_m and tru_o", false),
        ("(num_m)", false),
        ("not tru_m", false),
        ("7", false),
        ("", false),
        ("num_m[0]", false),
        ("nosuch", false),
    ];
    run.exhaustive("value-matrix", true);
    run.parallel("value-matrix", vexprs.len() as u64, |i, l| {
        let (text, ok) = vexprs[i as usize];
        l.evals += 1;
        match guard(|| eng.scheme.parse_value(text).map_err(|e| e.to_string())) {
            Ok(Ok(_)) if ok => {}
            Ok(Err(_)) if !ok => {}
            Ok(other) => run.violation(
                &format!("C04/value-expression-decision/{}", if ok { "rejected" } else { "accepted" }),
                "accept-iff-well-typed",
                "value-matrix",
                i,
                json!({"value_expr": text, "expected_accept": ok, "outcome": format!("{:?}", other.map(|_| ()))}),
            ),
            Err(p) => run.violation(
                &format!("C04/panic-in-parse_value/{}", first_line(&p)),
                "no-panic",
                "value-matrix",
                i,
                json!({"value_expr": text, "panic": p}),
            ),
        }
        run.distinct(hash_str(text));
    });

    // ---- random compositions: well-typed controls and single ill-typed mutations
    let n = run.opts.size(100_000, 3_000_000);
    run.parallel("random", n, |i, l| {
        let mut r = Rng::derive(seed, "c04-r", i);
        let mut cfg = GenCfg::full();
        cfg.max_depth = r.range(1, 4);
        let mut g = FilterGen::new(env, cfg, Rng::derive(seed, "c04-g", i));
        let good = g.filter();
        let (expr, mutated) = if i % 2 == 0 {
            (good, None)
        } else {
            match ill_type(env, &good, &mut r) {
                Some((e, what)) => (e, Some(what)),
                None => (good, None),
            }
        };
        let verdict = type_filter(env, &expr);
        if mutated.is_some() && verdict.is_ok() {
            l.count("mutation_kept_it_well_typed");
        }
        let text = print_filter(env, &expr, Some(Rng::derive(seed, "c04-p", i)));
        check_decision(
            run, l, "random", i, &eng, &text,
            verdict.is_ok(),
            verdict.as_ref().err().map(|s| s.as_str()).unwrap_or(""),
            &format!("random/{}", mutated.unwrap_or("control")),
            Some(&expr), &mut r,
        );
        if verdict.is_ok() {
            l.count("random_well_typed");
        } else {
            l.count("random_ill_typed");
        }
        run.distinct(hash_str(&text));
        if i % 2501 == 1 {
            run.sample("random", 5, || json!({"filter": text, "mutation": mutated, "well_typed": verdict.is_ok()}));
        }
    });

    // ---- random value expressions: static type and result type
    let n = run.opts.size(40_000, 1_000_000);
    run.parallel("values", n, |i, l| {
        let mut r = Rng::derive(seed, "c04-v", i);
        let mut g = FilterGen::new(env, GenCfg::full(), Rng::derive(seed, "c04-vg", i));
        let path = if r.bool() {
            g.value_expr()
        } else {
            let t = r.pick(&PRIMS).clone();
            g.value_call_expr(&t)
        };
        let Some(mut path) = path else { return };
        let mut what = "control";
        if i % 3 == 0 && !path.idx.is_empty() {
            // make the own path use [*]
            let k = r.below(path.idx.len());
            path.idx[k] = Idx::Each;
            what = "own-map-each";
        }
        let verdict = type_value_expr(env, &path);
        let text = print_value_expr(env, &path, Some(Rng::derive(seed, "c04-vp", i)));
        l.evals += 1;
        match guard(|| eng.scheme.parse_value(&text).map_err(|e| e.to_string())) {
            Err(p) => run.violation(
                &format!("C04/panic-in-parse_value/{}", first_line(&p)),
                "no-panic",
                "values",
                i,
                json!({"value_expr": text, "panic": p}),
            ),
            Ok(Err(e)) => {
                if verdict.is_ok() {
                    run.violation(
                        &format!("C04/value-well-typed-rejected/{}", error_kind(&e)),
                        "accept-iff-well-typed",
                        "values",
                        i,
                        json!({"value_expr": text, "error": e}),
                    );
                }
            }
            Ok(Ok(ast)) => {
                let st = match &verdict {
                    Ok(t) => t.clone(),
                    Err(why) => {
                        run.violation(
                            &format!("C04/value-ill-typed-accepted/{}", what),
                            "accept-iff-well-typed",
                            "values",
                            i,
                            json!({"value_expr": text, "rule": why}),
                        );
                        return;
                    }
                };
                let engine_t = RType::from_engine(ast.get_type());
                if engine_t != st {
                    run.violation(
                        "C04/value-static-type-differs",
                        "static-type",
                        "values",
                        i,
                        json!({"value_expr": text, "expected": st.short(), "engine": engine_t.short()}),
                    );
                }
                let fv = match guard(|| ast.compile()) {
                    Ok(f) => f,
                    Err(p) => {
                        run.violation(
                            &format!("C04/value-compile-panic/{}", first_line(&p)),
                            "accepted-never-fails",
                            "values",
                            i,
                            json!({"value_expr": text, "panic": p}),
                        );
                        return;
                    }
                };
                for _ in 0..3 {
                    let vals = gen_ctx(&mut r, env);
                    let ectx = eng.ctx(&vals, &ListState::default());
                    l.evals += 1;
                    match guard(|| fv.execute(&ectx).map(|r| res_from_engine(&r))) {
                        Ok(Ok(Ok(res))) => {
                            let dyn_t = match &res {
                                Ok(v) => v.ty(),
                                Err(t) => t.clone(),
                            };
                            if dyn_t != st {
                                run.violation(
                                    &format!("C04/value-of-wrong-type/{}", if res.is_ok() { "value" } else { "absence" }),
                                    "value-has-static-type",
                                    "values",
                                    i,
                                    json!({"value_expr": text, "static": st.short(), "dynamic": dyn_t.short(),
                                           "ctx": show_ctx(env, &vals)}),
                                );
                            }
                        }
                        Ok(Ok(Err(e))) => run.violation(
                            "C04/value-ill-formed",
                            "deep-type-invariant",
                            "values",
                            i,
                            json!({"value_expr": text, "error": e}),
                        ),
                        Ok(Err(_)) => run.violation("C04/value-scheme-mismatch", "executes", "values", i, json!({})),
                        Err(p) => run.violation(
                            &format!("C04/value-execute-panic/{}", first_line(&p)),
                            "accepted-never-fails",
                            "values",
                            i,
                            json!({"value_expr": text, "panic": p, "ctx": show_ctx(env, &vals)}),
                        ),
                    }
                    let _ = take_monitor_errors();
                }
            }
        }
        run.distinct(hash_str(&text));
    });
}

/// Turn a well-typed filter into one that breaks exactly one typing rule.
/// Only unambiguous spellings are produced (DESIGN.md section 3.3).
pub fn ill_type(env: &Env, e: &Expr, r: &mut Rng) -> Option<(Expr, &'static str)> {
    // collect mutation sites: comparison nodes (by pre-order number)
    fn count(e: &Expr) -> usize {
        match e {
            Expr::Cmp(..) => 1,
            Expr::Not(x) | Expr::Paren(x) => count(x),
            Expr::Comb(_, it) => it.iter().map(count).sum(),
            Expr::Quant(_, QArg::Logical(x)) => count(x),
            Expr::Quant(_, QArg::Path(_)) => 0,
        }
    }
    fn map_nth(e: &Expr, n: &mut usize, f: &mut dyn FnMut(&Path, &CmpOp) -> Option<Expr>) -> Option<Expr> {
        match e {
            Expr::Cmp(p, op) => {
                if *n == 0 {
                    *n = usize::MAX;
                    f(p, op)
                } else {
                    *n -= 1;
                    None
                }
            }
            Expr::Not(x) => map_nth(x, n, f).map(Expr::not),
            Expr::Paren(x) => map_nth(x, n, f).map(Expr::paren),
            Expr::Comb(op, items) => {
                for (k, it) in items.iter().enumerate() {
                    if let Some(m) = map_nth(it, n, f) {
                        let mut items = items.clone();
                        items[k] = m;
                        return Some(Expr::Comb(*op, items));
                    }
                    if *n == usize::MAX {
                        return None;
                    }
                }
                None
            }
            Expr::Quant(q, QArg::Logical(x)) => {
                map_nth(x, n, f).map(|m| Expr::Quant(*q, QArg::Logical(Box::new(m))))
            }
            Expr::Quant(_, QArg::Path(_)) => None,
        }
    }
    // append / insert an operand of the other kind into an existing chain
    fn chain_sites(e: &Expr) -> usize {
        match e {
            Expr::Cmp(..) => 0,
            Expr::Not(x) | Expr::Paren(x) => chain_sites(x),
            Expr::Comb(_, it) => 1 + it.iter().map(chain_sites).sum::<usize>(),
            Expr::Quant(_, QArg::Logical(x)) => chain_sites(x),
            Expr::Quant(_, QArg::Path(_)) => 0,
        }
    }
    fn extend_nth(env: &Env, e: &Expr, n: &mut usize, r: &mut Rng) -> Option<Expr> {
        match e {
            Expr::Cmp(..) => None,
            Expr::Not(x) => extend_nth(env, x, n, r).map(Expr::not),
            Expr::Paren(x) => extend_nth(env, x, n, r).map(Expr::paren),
            Expr::Comb(op, items) => {
                if *n == 0 {
                    *n = usize::MAX;
                    let is_arr = crate::refsem::type_expr(env, &items[0]).ok()? == crate::refsem::ETy::BoolArr;
                    let other = if is_arr {
                        Expr::Cmp(Path::field(env.field("tru_m")?), CmpOp::IsTrue)
                    } else {
                        Expr::Cmp(
                            Path { base: Base::Field(env.field("l_num_m")?), idx: vec![Idx::Each] },
                            CmpOp::Ord(OrdOp::Eq, Lit::Int(1)),
                        )
                    };
                    let mut items = items.clone();
                    // never in the first position: a later operand of the chain
                    let pos = 1 + r.below(items.len());
                    items.insert(pos, other);
                    return Some(Expr::Comb(*op, items));
                }
                *n -= 1;
                for (k, it) in items.iter().enumerate() {
                    if let Some(m) = extend_nth(env, it, n, r) {
                        let mut items = items.clone();
                        items[k] = m;
                        return Some(Expr::Comb(*op, items));
                    }
                    if *n == usize::MAX {
                        return None;
                    }
                }
                None
            }
            Expr::Quant(q, QArg::Logical(x)) => {
                extend_nth(env, x, n, r).map(|m| Expr::Quant(*q, QArg::Logical(Box::new(m))))
            }
            Expr::Quant(_, QArg::Path(_)) => None,
        }
    }
    let nchains = chain_sites(e);
    if nchains > 0 && r.chance(1, 4) {
        let mut n = r.below(nchains);
        if let Some(m) = extend_nth(env, e, &mut n, r) {
            return Some((m.normalize(), "mismatching-operand-late-in-chain"));
        }
    }
    let choice = r.below(9);
    let ncmp = count(e);
    let mut what: &'static str = "";
    let out = match choice {
        0..=5 if ncmp > 0 => {
            let mut n = r.below(ncmp);
            let sub = r.below(6);
            let mut f = |p: &Path, op: &CmpOp| -> Option<Expr> {
                let t = crate::refsem::type_path_elem(env, p).ok()?;
                match sub {
                    0 => {
                        // literal of another type (unambiguous spellings only)
                        if let CmpOp::Ord(o, _) = op {
                            let lit = match t {
                                RType::Int => Lit::Bytes(BytesLit::quoted(b"abc".to_vec())),
                                RType::Bytes => Lit::Int(7),
                                RType::Ip => Lit::Int(7),
                                _ => return None,
                            };
                            what = "literal-of-another-type";
                            Some(Expr::Cmp(p.clone(), CmpOp::Ord(*o, lit)))
                        } else {
                            None
                        }
                    }
                    1 => {
                        // operator not defined on the type
                        let bad = match t {
                            RType::Int => CmpOp::Contains(BytesLit::quoted(b"a".to_vec())),
                            RType::Bytes => CmpOp::BitAnd(7),
                            RType::Ip => CmpOp::Wildcard {
                                strict: false,
                                pat: BytesLit::quoted(b"a*".to_vec()),
                            },
                            RType::Bool => CmpOp::Ord(OrdOp::Eq, Lit::Int(1)),
                            _ => return None,
                        };
                        what = "operator-not-defined-on-type";
                        Some(Expr::Cmp(p.clone(), bad))
                    }
                    2 => {
                        // one index too many
                        let mut p2 = p.clone();
                        if !t.is_scalar() {
                            return None;
                        }
                        p2.idx.push(if r.bool() { Idx::Arr(0) } else { Idx::Key("k".into()) });
                        what = "index-into-scalar";
                        Some(Expr::Cmp(p2, op.clone()))
                    }
                    3 => {
                        // wrong index kind somewhere along the path
                        let mut p2 = p.clone();
                        let pos = p2.idx.iter().position(|x| matches!(x, Idx::Arr(_) | Idx::Key(_)))?;
                        p2.idx[pos] = match &p2.idx[pos] {
                            Idx::Arr(_) => Idx::Key("k".into()),
                            Idx::Key(_) => Idx::Arr(0),
                            Idx::Each => unreachable!(),
                        };
                        what = "index-kind-mismatch";
                        Some(Expr::Cmp(p2, op.clone()))
                    }
                    4 => {
                        // drop the operator from a non-boolean comparison
                        if t == RType::Bool || t == RType::bool_arr() || *op == CmpOp::IsTrue {
                            return None;
                        }
                        what = "non-boolean-without-operator";
                        Some(Expr::Cmp(p.clone(), CmpOp::IsTrue))
                    }
                    _ => {
                        // list on a type without a registered list
                        if t != RType::Ip {
                            return None;
                        }
                        what = "no-list-for-type";
                        Some(Expr::Cmp(p.clone(), CmpOp::InList("a".into())))
                    }
                }
            };
            map_nth(e, &mut n, &mut f)
        }
        6 => {
            // mix a plain boolean with a boolean array
            let arr = Expr::Cmp(
                Path {
                    base: Base::Field(env.field("l_num_m")?),
                    idx: vec![Idx::Each],
                },
                CmpOp::Ord(OrdOp::Eq, Lit::Int(1)),
            );
            what = "operands-of-different-kinds";
            Some(Expr::Comb(*r.pick(&LOG_OPS), vec![Expr::paren(e.clone()), arr]))
        }
        7 => {
            // quantifier over a plain boolean
            what = "quantifier-over-plain-boolean";
            Some(Expr::Quant(QOp::Any, QArg::Logical(Box::new(Expr::paren(e.clone())))))
        }
        _ => {
            // boolean array at the top level
            what = "top-level-array";
            Some(Expr::Comb(
                LogOp::And,
                vec![
                    Expr::Cmp(Path::field(env.field("l_tru_m")?), CmpOp::IsTrue),
                    Expr::Cmp(
                        Path {
                            base: Base::Field(env.field("l_num_m")?),
                            idx: vec![Idx::Each],
                        },
                        CmpOp::Ord(OrdOp::Eq, Lit::Int(1)),
                    ),
                ],
            ))
        }
    };
    out.map(|e| (e.normalize(), what))
}
