//! C03 — function calls: evaluated arguments in order, defaults, typed
//! absences, map-each application, concat, definition context.

use super::common::*;
use crate::ast::*;
use crate::ctxfn::{take_ctx_log, CtxEvent};
use crate::engine::{take_call_log, take_monitor_errors};
use crate::gen::*;
use crate::printer::{print_filter, print_value_expr};
use crate::prng::Rng;
use crate::refsem::{call_is_mapped, CallEvent, Eval, ListState};
use crate::report::{guard, hash_str, Local, Run};
use crate::rv::{res_from_engine, show_res};
use serde_json::{json, Value as J};
use std::collections::BTreeMap;

pub fn cfg() -> GenCfg {
    GenCfg {
        containers: true,
        calls: true,
        quant: true,
        lists: false,
        sets: true,
        contains: true,
        regex: false,
        wildcard: false,
        max_depth: 4,
        hex_bytes: true,
    }
}

fn group(calls: &[CallEvent]) -> BTreeMap<u32, Vec<&CallEvent>> {
    let mut m: BTreeMap<u32, Vec<&CallEvent>> = BTreeMap::new();
    for c in calls {
        m.entry(c.site).or_default().push(c);
    }
    m
}

fn show_call(c: &CallEvent) -> J {
    json!({
        "site": c.site,
        "args": c.args.iter().map(show_res).collect::<Vec<_>>(),
        "result": c.result.as_ref().map(|r| r.show()),
    })
}

/// The engine's log for each call site must be the expected per-evaluation
/// sequence repeated r >= 0 times. Returns a description of the first
/// disagreement.
pub fn compare_logs(expected: &[CallEvent], observed: &[CallEvent]) -> Option<J> {
    let exp = group(expected);
    let obs = group(observed);
    for (site, o) in &obs {
        let e = match exp.get(site) {
            Some(e) => e,
            None => {
                return Some(json!({"site": site, "problem": "site called but never expected",
                    "observed": o.iter().take(4).map(|c| show_call(c)).collect::<Vec<_>>()}))
            }
        };
        if e.is_empty() || o.len() % e.len() != 0 {
            return Some(json!({"site": site, "problem": "observed call count is not a multiple of the expected sequence length",
                "expected": e.iter().take(6).map(|c| show_call(c)).collect::<Vec<_>>(),
                "observed": o.iter().take(6).map(|c| show_call(c)).collect::<Vec<_>>()}));
        }
        for (k, c) in o.iter().enumerate() {
            let want = e[k % e.len()];
            if c.args != want.args || c.result != want.result {
                return Some(json!({"site": site, "problem": "call differs from expectation", "position": k,
                    "expected": show_call(want), "observed": show_call(c)}));
            }
        }
    }
    None
}

fn has_call(e: &Expr) -> bool {
    fn p(p: &Path) -> bool {
        matches!(p.base, Base::Call(_))
    }
    match e {
        Expr::Cmp(pp, _) => p(pp),
        Expr::Not(e) | Expr::Paren(e) => has_call(e),
        Expr::Comb(_, items) => items.iter().any(has_call),
        Expr::Quant(_, QArg::Path(pp)) => p(pp),
        Expr::Quant(_, QArg::Logical(e)) => has_call(e),
    }
}

fn ctx_filters(r: &mut Rng, eng: &Eng) -> (Expr, usize) {
    // a filter with 1..2 `tag` call sites, each with 1..3 byte arguments
    let env = &eng.env;
    let tags: Vec<usize> = env
        .funcs
        .iter()
        .enumerate()
        .filter(|(_, f)| f.sem == Sem::Ctx)
        .map(|(i, _)| i)
        .collect();
    let bytes_fields: Vec<usize> = env
        .fields
        .iter()
        .enumerate()
        .filter(|(_, f)| f.ty == crate::rv::RType::Bytes)
        .map(|(i, _)| i)
        .collect();
    let arr_fields: Vec<usize> = env
        .fields
        .iter()
        .enumerate()
        .filter(|(_, f)| f.ty == crate::rv::RType::arr(crate::rv::RType::Bytes))
        .map(|(i, _)| i)
        .collect();
    let mut mk_call = |r: &mut Rng, fi: usize, inner: Option<Call>| -> Call {
        let n = r.range(1, 3);
        let mut args = Vec::new();
        for k in 0..n {
            if k == 0 {
                if let Some(c) = &inner {
                    args.push(Arg::Path(Path {
                        base: Base::Call(Box::new(c.clone())),
                        idx: vec![],
                    }));
                    continue;
                }
                if r.chance(1, 4) {
                    args.push(Arg::Path(Path {
                        base: Base::Field(*r.pick(&arr_fields)),
                        idx: vec![Idx::Each],
                    }));
                    continue;
                }
            }
            if r.chance(1, 3) {
                args.push(Arg::Lit(Lit::Bytes(BytesLit::quoted(gen_bytes(r)))));
            } else {
                args.push(Arg::Path(Path::field(*r.pick(&bytes_fields))));
            }
        }
        Call { func: fi, args }
    };
    let nested = r.chance(1, 3);
    let (call, sites) = if nested {
        let inner = mk_call(r, tags[1], None);
        if call_is_mapped(&inner) {
            (inner, 1)
        } else {
            (mk_call(r, tags[0], Some(inner)), 2)
        }
    } else {
        (mk_call(r, tags[0], None), 1)
    };
    let mapped = call_is_mapped(&call);
    let lit = Lit::Bytes(BytesLit::quoted(gen_bytes(r)));
    let path = Path {
        base: Base::Call(Box::new(call)),
        idx: if mapped { vec![Idx::Each] } else { vec![] },
    };
    let cmp = Expr::Cmp(path, CmpOp::Ord(*r.pick(&ORD_OPS), lit));
    let e = if mapped {
        Expr::Quant(QOp::Any, QArg::Logical(Box::new(cmp)))
    } else {
        cmp
    };
    (e.normalize(), sites)
}

fn check_ctx_events(run: &Run, family: &str, index: u64, text: &str, expr: &Expr, env: &Env, events: &[CtxEvent]) {
    // expected argument count per site
    let mut nargs: BTreeMap<u32, usize> = BTreeMap::new();
    fn walk_path(p: &Path, env: &Env, out: &mut BTreeMap<u32, usize>) {
        if let Base::Call(c) = &p.base {
            let f = &env.funcs[c.func];
            if f.sem == Sem::Ctx {
                out.insert(f.site, c.args.len());
            }
            for a in &c.args {
                match a {
                    Arg::Path(p) => walk_path(p, env, out),
                    Arg::Logical(e) => walk(e, env, out),
                    Arg::Lit(_) => {}
                }
            }
        }
    }
    fn walk(e: &Expr, env: &Env, out: &mut BTreeMap<u32, usize>) {
        match e {
            Expr::Cmp(p, _) => walk_path(p, env, out),
            Expr::Not(e) | Expr::Paren(e) => walk(e, env, out),
            Expr::Comb(_, items) => items.iter().for_each(|i| walk(i, env, out)),
            Expr::Quant(_, QArg::Path(p)) => walk_path(p, env, out),
            Expr::Quant(_, QArg::Logical(e)) => walk(e, env, out),
        }
    }
    walk(expr, env, &mut nargs);
    let fail = |what: &str, detail: J| {
        run.violation(
            &format!("C03/definition-context/{}", what),
            "definition-context",
            family,
            index,
            json!({"filter": text, "problem": what, "detail": detail,
                   "events": events.iter().map(|e| format!("{:?}", e)).collect::<Vec<_>>()}),
        );
    };
    for (site, n) in &nargs {
        let mut created: Vec<u64> = Vec::new();
        let mut checks = 0usize;
        let mut compiles = 0usize;
        let mut rets = 0usize;
        for e in events {
            match e {
                CtxEvent::Created { id, site: s } if s == site => created.push(*id),
                CtxEvent::Check { id, site: s, pos, accessor, ok, seen_after } if s == site => {
                    if !*ok {
                        fail(&format!("not-reachable-through-{}", accessor), json!({"pos": pos}));
                        return;
                    }
                    if created.last() != id.as_ref() {
                        fail("check_param-sees-a-different-context", json!({"pos": pos}));
                        return;
                    }
                    if *seen_after != pos + 1 {
                        fail("check_param-lost-earlier-updates", json!({"pos": pos, "seen_after": seen_after}));
                        return;
                    }
                    checks += 1;
                }
                CtxEvent::ReturnType { id, site: s, params, seen, .. } if s == site => {
                    if created.last() != id.as_ref() || seen != n || params != n {
                        fail("return_type-sees-a-different-or-incomplete-context",
                             json!({"params": params, "seen": seen, "expected_args": n}));
                        return;
                    }
                    rets += 1;
                }
                CtxEvent::Compile { id, site: s, params, seen, via } if s == site => {
                    if created.last() != id.as_ref() || seen != n || params != n {
                        fail(&format!("compile-sees-a-different-or-incomplete-context-via-{}", via),
                             json!({"params": params, "seen": seen, "expected_args": n}));
                        return;
                    }
                    compiles += 1;
                }
                CtxEvent::Missing { site: s, at } if s == site => {
                    fail(&format!("context-missing-in-{}", at), json!({}));
                    return;
                }
                _ => {}
            }
        }
        if created.len() != 1 || checks != *n || compiles != 1 || rets == 0 {
            fail("unexpected-event-counts",
                 json!({"created": created.len(), "checks": checks, "expected_checks": n,
                        "compiles": compiles, "return_type_calls": rets}));
            return;
        }
    }
}

fn check_value_expr(run: &Run, l: &mut Local, i: u64, eng: &Eng, path: &Path, text: &str, r: &mut Rng) {
    let ast = match guard(|| eng.scheme.parse_value(text).map_err(|e| e.to_string())) {
        Ok(Ok(a)) => a,
        Ok(Err(e)) => {
            run.violation(
                &format!("C03/value-parse-rejects/{}", error_kind(&e)),
                "accepts-well-typed",
                "values",
                i,
                json!({"value_expr": text, "error": e}),
            );
            return;
        }
        Err(p) => {
            run.violation(
                &format!("C03/value-parse-panic/{}", first_line(&p)),
                "no-panic",
                "values",
                i,
                json!({"value_expr": text, "panic": p}),
            );
            return;
        }
    };
    let fv = match guard(|| ast.compile()) {
        Ok(f) => f,
        Err(p) => {
            run.violation(
                &format!("C03/value-compile-panic/{}", first_line(&p)),
                "no-panic",
                "values",
                i,
                json!({"value_expr": text, "panic": p}),
            );
            return;
        }
    };
    for _ in 0..4 {
        let vals = gen_ctx(r, &eng.env);
        let lists = ListState::default();
        let mut ev = Eval::new(&eng.env, &vals, &lists);
        let expected = ev.path_value(path);
        let ectx = eng.ctx(&vals, &lists);
        l.evals += 1;
        let _ = take_call_log();
        let got = guard(|| fv.execute(&ectx).map(|r| res_from_engine(&r)));
        let observed = take_call_log();
        let merrs = take_monitor_errors();
        if !merrs.is_empty() {
            run.violation(
                &format!("C03/ill-formed-argument/{}", path_shape(path)),
                "deep-type-invariant",
                "values",
                i,
                json!({"value_expr": text, "errors": merrs, "ctx": show_ctx(&eng.env, &vals)}),
            );
        }
        match got {
            Ok(Ok(Ok(g))) => {
                if g != expected {
                    run.violation(
                        &format!("C03/value-wrong-result/{}", path_shape(path)),
                        "refsem-value",
                        "values",
                        i,
                        json!({"value_expr": text, "expected": show_res(&expected), "got": show_res(&g),
                               "ctx": show_ctx(&eng.env, &vals)}),
                    );
                }
            }
            Ok(Ok(Err(e))) => run.violation(
                &format!("C03/value-ill-formed/{}", path_shape(path)),
                "deep-type-invariant",
                "values",
                i,
                json!({"value_expr": text, "error": e, "ctx": show_ctx(&eng.env, &vals)}),
            ),
            Ok(Err(_)) => run.violation(
                "C03/value-scheme-mismatch",
                "executes",
                "values",
                i,
                json!({"value_expr": text}),
            ),
            Err(p) => run.violation(
                &format!("C03/value-execute-panic/{}", first_line(&p)),
                "no-panic",
                "values",
                i,
                json!({"value_expr": text, "panic": p, "ctx": show_ctx(&eng.env, &vals)}),
            ),
        }
        if let Some(d) = compare_logs(&ev.calls, &observed) {
            run.violation(
                &format!("C03/value-call-log/{}", path_shape(path)),
                "call-log",
                "values",
                i,
                json!({"value_expr": text, "disagreement": d, "ctx": show_ctx(&eng.env, &vals)}),
            );
        }
        if !ev.calls.is_empty() {
            run.distinct(hash_str(&format!("v|{}|{:?}", text, vals)));
            l.add("calls_observed", observed.len() as u64);
        }
    }
}

pub fn run(run: &Run) {
    let envs: Vec<Eng> = (0..2).map(|v| Eng::new(rich_env(v))).collect();
    let seed = run.opts.seed;

    // ---- family 1: random filters with calls
    let n = run.opts.size(100_000, 2_500_000);
    run.parallel("random", n, |i, l| {
        let mut r = Rng::derive(seed, "c03-random", i);
        let eng = &envs[r.below(envs.len())];
        let mut c = cfg();
        if r.chance(1, 3) {
            c.max_depth = 3;
        }
        let mut g = FilterGen::new(&eng.env, c, Rng::derive(seed, "c03-gen", i));
        let expr = g.filter();
        if !has_call(&expr) && r.chance(3, 4) {
            return;
        }
        let text = print_filter(&eng.env, &expr, Some(Rng::derive(seed, "c03-print", i)));
        let ctxs: Vec<(Ctx, ListState)> = (0..4)
            .map(|_| (gen_ctx(&mut r, &eng.env), ListState::default()))
            .collect();
        let canon = print_filter(&eng.env, &expr, None);
        let mut nontrivial: Vec<usize> = Vec::new();
        let mut log_problem: Option<(usize, J)> = None;
        let mut ncalls = 0u64;
        let mut mapped_calls = 0u64;
        let _ = take_ctx_log();
        check_filter_obs(
            run,
            l,
            "C03",
            "random",
            i,
            eng,
            &expr,
            &text,
            &ctxs,
            &mut |ev: &Eval<'_>, ci, calls, _| {
                if !ev.calls.is_empty() {
                    nontrivial.push(ci);
                }
                ncalls += calls.len() as u64;
                if ev.calls.len() > 1 {
                    mapped_calls += 1;
                }
                if log_problem.is_none() {
                    if let Some(d) = compare_logs(&ev.calls, calls) {
                        log_problem = Some((ci, d));
                    }
                }
            },
        );
        let events = take_ctx_log();
        if !events.is_empty() {
            check_ctx_events(run, "random", i, &text, &expr, &eng.env, &events);
        }
        if let Some((ci, d)) = log_problem {
            run.violation(
                &format!("C03/call-log/{}", d["problem"].as_str().unwrap_or("?")),
                "call-log",
                "random",
                i,
                json!({"filter": text, "disagreement": d, "ctx": show_ctx(&eng.env, &ctxs[ci].0)}),
            );
        }
        for ci in nontrivial {
            run.distinct(hash_str(&format!("r|{}|{}|{:?}", eng.env.nil_ne, canon, ctxs[ci].0)));
        }
        l.add("calls_observed", ncalls);
        l.add("evals_with_several_calls", mapped_calls);
        if i % 1501 == 0 && has_call(&expr) {
            run.sample("random", 5, || json!({"filter": text}));
        }
    });

    // ---- family 2: value expressions built on calls
    let n = run.opts.size(60_000, 1_200_000);
    run.parallel("values", n, |i, l| {
        let mut r = Rng::derive(seed, "c03-values", i);
        let eng = &envs[r.below(envs.len())];
        let mut g = FilterGen::new(&eng.env, cfg(), Rng::derive(seed, "c03-vgen", i));
        // force a call at the base by asking for a path via call_reaching
        let target = r.pick(&PRIMS).clone();
        let Some(path) = g.value_call_expr(&target) else { return };
        let text = print_value_expr(&eng.env, &path, Some(Rng::derive(seed, "c03-vprint", i)));
        let _ = take_ctx_log();
        check_value_expr(run, l, i, eng, &path, &text, &mut r);
        let _ = take_ctx_log();
        if i % 1201 == 0 {
            run.sample("values", 4, || json!({"value_expr": text}));
        }
    });

    // ---- family 3: definition context
    let n = run.opts.size(30_000, 500_000);
    run.parallel("ctx", n, |i, l| {
        let mut r = Rng::derive(seed, "c03-ctx", i);
        let eng = &envs[r.below(envs.len())];
        let (expr, _sites) = ctx_filters(&mut r, eng);
        let text = print_filter(&eng.env, &expr, Some(Rng::derive(seed, "c03-cprint", i)));
        let ctxs: Vec<(Ctx, ListState)> = (0..2)
            .map(|_| (gen_ctx(&mut r, &eng.env), ListState::default()))
            .collect();
        let _ = take_ctx_log();
        let mut log_problem: Option<J> = None;
        check_filter_obs(
            run,
            l,
            "C03",
            "ctx",
            i,
            eng,
            &expr,
            &text,
            &ctxs,
            &mut |ev: &Eval<'_>, _ci, calls, _| {
                if log_problem.is_none() {
                    log_problem = compare_logs(&ev.calls, calls);
                }
            },
        );
        if let Some(d) = log_problem {
            run.violation(
                "C03/ctx-call-log",
                "call-log",
                "ctx",
                i,
                json!({"filter": text, "disagreement": d}),
            );
        }
        let events = take_ctx_log();
        l.add("ctx_events", events.len() as u64);
        check_ctx_events(run, "ctx", i, &text, &expr, &eng.env, &events);
        run.distinct(hash_str(&format!("c|{}", text)));
        if i % 701 == 0 {
            run.sample("ctx", 3, || json!({"filter": text, "events": events.len()}));
        }
    });
}
