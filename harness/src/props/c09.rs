//! C09 — `in {...}` is exact for any list of values, ranges and CIDRs.

use super::common::*;
use crate::ast::*;
use crate::gen::*;
use crate::printer::print_filter;
use crate::prng::Rng;
use crate::refsem::ListState;
use crate::report::{hash_str, Run};
use crate::rv::RV;
use serde_json::json;
use std::net::{IpAddr, Ipv4Addr, Ipv6Addr};

fn ctx_with(env: &Env, field: usize, v: Option<RV>) -> Ctx {
    let mut r = Rng::new(7);
    let mut c: Ctx = env
        .fields
        .iter()
        .map(|f| if f.optional { None } else { Some(gen_value(&mut r, &f.ty)) })
        .collect();
    c[field] = v;
    c
}

/// the 28 ranges (a<=b) over points 0..7
fn ranges7() -> Vec<(usize, usize)> {
    let mut v = Vec::new();
    for a in 0..7 {
        for b in a..7 {
            v.push((a, b));
        }
    }
    v
}

fn int_embeddings() -> Vec<[i64; 7]> {
    vec![
        [0, 1, 2, 3, 4, 5, 6],
        [i64::MIN, i64::MIN + 1, -1, 0, 1, i64::MAX - 1, i64::MAX],
        [
            (1 << 32) - 3,
            (1 << 32) - 2,
            (1 << 32) - 1,
            1 << 32,
            (1 << 32) + 1,
            (1 << 32) + 2,
            (1 << 32) + 3,
        ],
    ]
}

pub fn run(run: &Run) {
    let eng = Eng::new(scalar_env(true));
    let env = &eng.env;
    let seed = run.opts.seed;
    let num_o = env.field("num_o").unwrap();
    let ipa_o = env.field("ipa_o").unwrap();
    let str_o = env.field("str_o").unwrap();
    let no_lists = ListState::default();

    // ---- exhaustive: all lists of <= k ranges over a 7-point domain, every probe
    let rs = ranges7();
    let k_max = if run.opts.thorough() { 4 } else { 3 };
    let mut total = 0u64;
    let mut pow = 1u64;
    for _ in 0..=k_max {
        total += pow;
        pow *= rs.len() as u64;
    }
    let embs = int_embeddings();
    run.exhaustive("int-exhaustive", true);
    run.note("int_exhaustive_lists_per_embedding", json!(total));
    run.parallel("int-exhaustive", total * embs.len() as u64, |i, l| {
        let emb = &embs[(i / total) as usize];
        // decode list index -> items
        let mut x = i % total;
        let mut len = 0usize;
        let mut block = 1u64;
        while x >= block {
            x -= block;
            block *= rs.len() as u64;
            len += 1;
        }
        let mut items = Vec::new();
        for _ in 0..len {
            let (a, b) = rs[(x % rs.len() as u64) as usize];
            x /= rs.len() as u64;
            items.push(if a == b && (a + items.len()) % 2 == 0 {
                IntItem::One(emb[a])
            } else {
                IntItem::Range(emb[a], emb[b])
            });
        }
        let expr = Expr::Cmp(Path::field(num_o), CmpOp::InSet(SetLit::Int(items)));
        let text = print_filter(env, &expr, Some(Rng::derive(seed, "c09-ie", i)));
        let mut ctxs: Vec<(Ctx, ListState)> = emb
            .iter()
            .map(|p| (ctx_with(env, num_o, Some(RV::Int(*p))), no_lists.clone()))
            .collect();
        ctxs.push((ctx_with(env, num_o, None), no_lists.clone()));
        check_filter(run, l, "C09", "int-exhaustive", i, &eng, &expr, &text, &ctxs);
        run.distinct(i.wrapping_mul(0x9E37_79B9_7F4A_7C15) ^ 0x1111);
        if i % 20011 == 0 {
            run.sample("int-exhaustive", 4, || json!({"filter": text}));
        }
    });

    // ---- exhaustive: small IPv4 / IPv6 blocks with CIDRs and explicit ranges
    for (fam, v6) in [("ip4-exhaustive", false), ("ip6-exhaustive", true)] {
        let base4 = u32::from(Ipv4Addr::new(10, 0, 0, 0));
        let base6 = u128::from("2001:db8::".parse::<Ipv6Addr>().unwrap());
        let addr = |k: u128| -> IpAddr {
            if v6 {
                IpAddr::V6(Ipv6Addr::from(base6 + k))
            } else {
                IpAddr::V4(Ipv4Addr::from(base4 + k as u32))
            }
        };
        let full: u8 = if v6 { 128 } else { 32 };
        let mut items: Vec<IpItem> = Vec::new();
        for bits in 0..=3u8 {
            // blocks of size 2^bits inside the 8-address block
            let size = 1u128 << bits;
            let mut k = 0u128;
            while k < 8 {
                items.push(IpItem::Cidr(addr(k), full - bits));
                k += size;
            }
        }
        for (a, b) in ranges7() {
            if a == b {
                items.push(IpItem::Addr(addr(a as u128)));
            } else {
                items.push(IpItem::Range(addr(a as u128), addr(b as u128)));
            }
        }
        let n_items = items.len() as u64;
        let k_max = if run.opts.thorough() { 3 } else { 2 };
        let mut total = 0u64;
        let mut pow = 1u64;
        for _ in 0..=k_max {
            total += pow;
            pow *= n_items;
        }
        let mut probes: Vec<IpAddr> = (0..8).map(|k| addr(k)).collect();
        probes.push(addr(8));
        // neighbours outside the block and the other family
        if v6 {
            probes.push(IpAddr::V6(Ipv6Addr::from(base6 - 1)));
            probes.push("10.0.0.1".parse().unwrap());
            probes.push("::".parse().unwrap());
        } else {
            probes.push(IpAddr::V4(Ipv4Addr::from(base4 - 1)));
            probes.push("::ffff:10.0.0.1".parse().unwrap());
            probes.push("::a00:1".parse().unwrap());
        }
        run.exhaustive(fam, true);
        let items = &items;
        let probes = &probes;
        run.parallel(fam, total, |i, l| {
            let mut x = i;
            let mut len = 0usize;
            let mut block = 1u64;
            while x >= block {
                x -= block;
                block *= n_items;
                len += 1;
            }
            let mut list = Vec::new();
            for _ in 0..len {
                list.push(items[(x % n_items) as usize].clone());
                x /= n_items;
            }
            let expr = Expr::Cmp(Path::field(ipa_o), CmpOp::InSet(SetLit::Ip(list)));
            let text = print_filter(env, &expr, Some(Rng::derive(seed, fam, i)));
            let mut ctxs: Vec<(Ctx, ListState)> = probes
                .iter()
                .map(|p| (ctx_with(env, ipa_o, Some(RV::Ip(*p))), no_lists.clone()))
                .collect();
            ctxs.push((ctx_with(env, ipa_o, None), no_lists.clone()));
            check_filter(run, l, "C09", fam, i, &eng, &expr, &text, &ctxs);
            run.distinct(i.wrapping_mul(0x9E37_79B9_7F4A_7C15) ^ if v6 { 0x6666 } else { 0x4444 });
            if i % 1009 == 0 {
                run.sample(fam, 3, || json!({"filter": text}));
            }
        });
    }

    // ---- random: long lists around each other and around the extremes
    let n = run.opts.size(80_000, 6_000_000);
    run.parallel("int-random", n, |i, l| {
        let mut r = Rng::derive(seed, "c09-ir", i);
        let nitems = r.below(41);
        let centre = if r.bool() { gen_int(&mut r) } else { 0 };
        let mut pt = |r: &mut Rng| -> i64 {
            match r.below(6) {
                0 => i64::MIN,
                1 => i64::MAX,
                2 => gen_int(r),
                _ => centre.wrapping_add(r.below(64) as i64 - 32),
            }
        };
        let mut items = Vec::new();
        let mut endpoints = Vec::new();
        for _ in 0..nitems {
            let a = pt(&mut r);
            if r.chance(1, 3) {
                items.push(IntItem::One(a));
                endpoints.push(a);
            } else {
                let b = pt(&mut r);
                items.push(IntItem::Range(a.min(b), a.max(b)));
                endpoints.push(a);
                endpoints.push(b);
            }
        }
        let expr = Expr::Cmp(Path::field(num_o), CmpOp::InSet(SetLit::Int(items)));
        let text = print_filter(env, &expr, Some(Rng::derive(seed, "c09-irp", i)));
        let mut probes: Vec<i64> = vec![i64::MIN, i64::MAX, 0, centre];
        for e in &endpoints {
            probes.push(*e);
            probes.push(e.wrapping_sub(1));
            probes.push(e.wrapping_add(1));
        }
        probes.sort();
        probes.dedup();
        let mut ctxs: Vec<(Ctx, ListState)> = probes
            .iter()
            .map(|p| (ctx_with(env, num_o, Some(RV::Int(*p))), no_lists.clone()))
            .collect();
        ctxs.push((ctx_with(env, num_o, None), no_lists.clone()));
        check_filter(run, l, "C09", "int-random", i, &eng, &expr, &text, &ctxs);
        if nitems >= 2 {
            run.distinct(hash_str(&text));
        }
        if i % 2003 == 0 {
            run.sample("int-random", 3, || json!({"filter": text, "probes": probes.len()}));
        }
    });

    let n = run.opts.size(60_000, 4_000_000);
    run.parallel("ip-random", n, |i, l| {
        let mut r = Rng::derive(seed, "c09-pr", i);
        let nitems = r.below(25);
        let c4 = r.next() as u32;
        let c6 = ((r.next() as u128) << 64) | r.next() as u128;
        let mut pt = |r: &mut Rng, v6: bool| -> IpAddr {
            if v6 {
                IpAddr::V6(Ipv6Addr::from(match r.below(5) {
                    0 => 0,
                    1 => u128::MAX,
                    2 => 0x0000_0000_0000_0000_0000_ffff_0000_0000u128 | (c4 as u128),
                    _ => c6.wrapping_add(r.below(64) as u128).wrapping_sub(32),
                }))
            } else {
                IpAddr::V4(Ipv4Addr::from(match r.below(5) {
                    0 => 0,
                    1 => u32::MAX,
                    _ => c4.wrapping_add(r.below(64) as u32).wrapping_sub(32),
                }))
            }
        };
        let mut items = Vec::new();
        let mut endpoints: Vec<IpAddr> = Vec::new();
        for _ in 0..nitems {
            let v6 = r.bool();
            let a = pt(&mut r, v6);
            match r.below(3) {
                0 => {
                    items.push(IpItem::Addr(a));
                    endpoints.push(a);
                }
                1 => {
                    let full = if v6 { 128 } else { 32 };
                    let len = match r.below(4) {
                        0 => 0,
                        1 => full,
                        _ => full - r.below(9) as u8,
                    };
                    let net = mask_ip(&a, len);
                    items.push(IpItem::Cidr(net, len));
                    endpoints.push(net);
                    endpoints.push(cidr_last(&net, len));
                }
                _ => {
                    let b = pt(&mut r, v6);
                    let (lo, hi) = if crate::refsem::cmp_ip(&a, &b) == Some(std::cmp::Ordering::Greater) {
                        (b, a)
                    } else {
                        (a, b)
                    };
                    items.push(IpItem::Range(lo, hi));
                    endpoints.push(lo);
                    endpoints.push(hi);
                }
            }
        }
        let expr = Expr::Cmp(Path::field(ipa_o), CmpOp::InSet(SetLit::Ip(items)));
        let text = print_filter(env, &expr, Some(Rng::derive(seed, "c09-prp", i)));
        let mut probes: Vec<IpAddr> = vec![
            "0.0.0.0".parse().unwrap(),
            "255.255.255.255".parse().unwrap(),
            "::".parse().unwrap(),
            "ffff:ffff:ffff:ffff:ffff:ffff:ffff:ffff".parse().unwrap(),
        ];
        for e in &endpoints {
            probes.push(*e);
            probes.push(ip_add(e, 1));
            probes.push(ip_add(e, -1));
            // the same bits in the other family where that makes sense
            if let IpAddr::V4(v4) = e {
                probes.push(IpAddr::V6(v4.to_ipv6_mapped()));
                probes.push(IpAddr::V6(Ipv6Addr::from(u32::from(*v4) as u128)));
            }
        }
        probes.sort();
        probes.dedup();
        let mut ctxs: Vec<(Ctx, ListState)> = probes
            .iter()
            .map(|p| (ctx_with(env, ipa_o, Some(RV::Ip(*p))), no_lists.clone()))
            .collect();
        ctxs.push((ctx_with(env, ipa_o, None), no_lists.clone()));
        check_filter(run, l, "C09", "ip-random", i, &eng, &expr, &text, &ctxs);
        if nitems >= 2 {
            run.distinct(hash_str(&text));
        }
        if i % 2003 == 0 {
            run.sample("ip-random", 3, || json!({"filter": text, "probes": probes.len()}));
        }
    });

    let n = run.opts.size(40_000, 2_000_000);
    run.parallel("bytes-random", n, |i, l| {
        let mut r = Rng::derive(seed, "c09-br", i);
        let nitems = r.below(12);
        let stem: Vec<u8> = gen_bytes(&mut r);
        let mut mk = |r: &mut Rng| -> Vec<u8> {
            match r.below(5) {
                0 => vec![],
                1 => stem.clone(),
                2 => stem[..r.below(stem.len() + 1)].to_vec(),
                3 => {
                    let mut s = stem.clone();
                    s.push(r.next() as u8);
                    s
                }
                _ => gen_bytes(r),
            }
        };
        let mut members = Vec::new();
        let mut g = FilterGen::new(env, GenCfg::scalar_only(), Rng::derive(seed, "c09-brg", i));
        for _ in 0..nitems {
            let d = mk(&mut r);
            members.push(g.bytes_lit(d, false));
        }
        if nitems > 2 && r.bool() {
            let dup = members[0].clone();
            members.push(dup);
        }
        let mut probes: Vec<Vec<u8>> = members.iter().map(|m| m.data.clone()).collect();
        for _ in 0..4 {
            probes.push(mk(&mut r));
        }
        for m in &members {
            let mut longer = m.data.clone();
            longer.push(0);
            probes.push(longer);
            if !m.data.is_empty() {
                probes.push(m.data[..m.data.len() - 1].to_vec());
                let mut up = m.data.clone();
                up[0] = up[0].to_ascii_uppercase();
                probes.push(up);
            }
        }
        probes.sort();
        probes.dedup();
        let expr = Expr::Cmp(Path::field(str_o), CmpOp::InSet(SetLit::Bytes(members)));
        let text = print_filter(env, &expr, Some(Rng::derive(seed, "c09-brp", i)));
        let mut ctxs: Vec<(Ctx, ListState)> = probes
            .iter()
            .map(|p| (ctx_with(env, str_o, Some(RV::Bytes(p.clone()))), no_lists.clone()))
            .collect();
        ctxs.push((ctx_with(env, str_o, None), no_lists.clone()));
        check_filter(run, l, "C09", "bytes-random", i, &eng, &expr, &text, &ctxs);
        if nitems >= 2 {
            run.distinct(hash_str(&text));
        }
        if i % 1009 == 0 {
            run.sample("bytes-random", 2, || json!({"filter": text}));
        }
    });
}

pub fn cidr_last(net: &IpAddr, len: u8) -> IpAddr {
    match net {
        IpAddr::V4(v) => {
            let host = if len >= 32 { 0 } else { u32::MAX >> len };
            IpAddr::V4(Ipv4Addr::from(u32::from(*v) | host))
        }
        IpAddr::V6(v) => {
            let host = if len >= 128 { 0 } else { u128::MAX >> len };
            IpAddr::V6(Ipv6Addr::from(u128::from(*v) | host))
        }
    }
}

pub fn ip_add(a: &IpAddr, d: i32) -> IpAddr {
    match a {
        IpAddr::V4(v) => IpAddr::V4(Ipv4Addr::from(u32::from(*v).wrapping_add(d as u32))),
        IpAddr::V6(v) => IpAddr::V6(Ipv6Addr::from(u128::from(*v).wrapping_add(d as i128 as u128))),
    }
}
