//! C18 — compiled filters are deterministic and safe to execute concurrently.

use super::common::*;
use crate::engine::{take_call_log, take_list_log, take_monitor_errors};
use crate::gen::*;
use crate::prng::Rng;
use crate::refsem::ListState;
use crate::report::{guard, hash_str, Run};
use crate::rv::{RType, RV};
use serde_json::json;
use std::sync::atomic::{AtomicU64, Ordering};
use std::sync::{Arc, Barrier};
use wirefilter::{ExecutionContext, Filter};

const FILTERS: &[&str] = &[
    r#"str_m matches "crawler/[0-9]+\.[0-9]+$""#,
    r#"http.host matches "^(a|b)*c""#,
    r#"str_m matches "(alpha|beta|gamma|delta|epsilon|zeta|eta|theta|iota|kappa|lambda|mu|nu|xi|omicron|pi|rho|sigma|tau|upsilon|phi|chi|psi|omega)[0-9]{2,5}(x|y|z)+$""#,
    r#"str_m wildcard "*CRAWLER*""#,
    r#"str_m strict wildcard "Moz*""#,
    r#"str_m contains "crawler/12""#,
    r#"str_m contains "compatible; crawler/12.5 (+http""#,
    r#"str_m contains "/""#,
    r#"num_m in {1 5..10 100..2000 -9223372036854775808..-9223372036854775800}"#,
    r#"ipa_m in {10.0.0.0/8 ::1 192.168.0.0..192.168.255.255 2001:db8::/32}"#,
    r#"str_m in {"a" "b" "abc"}"#,
    r#"num_m in $a"#,
    r#"any(l_ipa_m[*] in $abc)"#,
    r#"any(l_str_m[*] contains "a")"#,
    r#"all((ll_tru_m[*][*]))"#,
    r#"any(upper1(l_str_m[*])[*] == "A")"#,
    r#"any(glue1(l_str_m[*], "x", upper1(str_m))[*] contains "X")"#,
    r#"sum1(num_m, 2) > 5 and not tru_m or lens1(str_m) >= 32"#,
    r#"any(lens1(m_str_m[*])[*] > 2)"#,
    r#"join1(str_m, http.host) contains "lla/5.0""#,
    r#"any(m_str_m[*] matches "^[a-z]+$")"#,
    r#"str_o != "x" xor ipa_o == 1.2.3.4"#,
    r#"any(keepeven1(l_num_m[*])[*] > 0)"#,
    r#"tally1((l_tru_m and l_tru_o)) >= 1"#,
    // byte-oriented matching: one `.` is one byte, whatever the bytes spell
    r#"http.host matches "^x.y$""#,
    r#"http.host matches "^x..y$""#,
    r#"http.host matches "^x[^a]y$" or http.host matches "^x\W+y$""#,
    // large literal sets (whatever is prepared lazily for them is prepared on first use)
    r#"num_m in {1 5..10 100..2000 3000..3007 4000..4007 5000..5007 6000..6007 7000..7007 8000..8007 9000..9007 10000..10007 11000..11007 12000..12007 13000..13007 14000..14007 15000..15007 16000..16007 17000..17007 18000..18007 19000..19007 20000..20007 21000..21007 22000..22007 23000..23007 24000..24007 25000..25007 26000..26007 27000..27007 28000..28007 29000..29007 30000..30007 31000..31007 32000..32007 33000..33007 34000..34007 35000..35007 36000..36007 37000..37007 38000..38007 39000..39007 40000..40007 4294967296..4294967297 -9223372036854775808..-9223372036854775800 255 7 2 0 -1 -256}"#,
    r#"ipa_m in {10.0.0.0/8 172.16.0.0/12 192.168.0.0/16 100.64.0.0/10 169.254.0.0/16 198.18.0.0/15 203.0.113.0/24 192.0.2.0/24 198.51.100.0/24 224.0.0.0/4 240.0.0.0/4 127.0.0.0/8 1.2.3.4 8.8.8.8 ::1 ::ffff:0:0/96 2001:db8::/32 fe80::/10 fc00::/7 ff00::/8 64:ff9b::/96 2002::/16 2001::/32 ::2..::ff}"#,
    // combinators whose deciding operand differs from one context to the next
    r#"str_m contains " crawler/12.5" and http.host contains " crawler/12.5""#,
    r#"str_m contains " crawler/12.x" or http.host contains " crawler/12.x""#,
    r#"str_m contains " crawler/12.5" xor http.host contains " crawler/12.x" xor tru_m"#,
    r#"tru_m and num_m > 0 and str_m != "" and not tru_o"#,
    r#"tru_m or num_m > 0 or str_o == "x" or ipa_o == 1.2.3.4"#,
    r#"num_m > 0 and tru_m or not tru_m and num_m <= 0 or str_m contains " crawler/12.5" and http.host == "ababc""#,
    r#"any((l_tru_m and l_tru_o or not l_tru_m))"#,
    r#"all(l_num_m[*] > 0) or any(l_str_m[*] == "a") and not all((l_tru_m))"#,
];

fn long_value(matching: bool, k: usize) -> Vec<u8> {
    let mut s = String::from("Mozilla/5.0 (X11; Linux x86_64) ");
    for i in 0..(3 + k % 40) {
        s.push_str(&format!("Gecko/{} like alpha{:03}x ", 20100101 + i, i));
    }
    s.push_str("(compatible; crawler/12.5 (+http://example.com/bot)");
    if matching {
        s.push_str(" crawler/12.5");
    } else {
        s.push_str(" crawler/12.x");
    }
    s.into_bytes()
}

fn contexts(eng: &Eng, seed: u64, n: usize) -> Vec<(Ctx, ListState)> {
    let env = &eng.env;
    let str_m = env.field("str_m").unwrap();
    let host = env.field("http.host").unwrap();
    (0..n)
        .map(|k| {
            let mut r = Rng::derive(seed, "c18-ctx", k as u64);
            let mut vals = gen_ctx(&mut r, env);
            // long values whose outcome alternates from one context to the next;
            // pairs of contexts share identical content
            let m = (k / 2) % 2 == 0;
            vals[str_m] = Some(RV::Bytes(long_value(m, k / 4)));
            vals[host] = Some(RV::Bytes(match k % 8 {
                1 => b"x\xc3\xa9y".to_vec(),
                5 => b"x\xffy".to_vec(),
                _ if k % 3 == 0 => b"ababc".to_vec(),
                _ => long_value(!m, k / 4),
            }));
            let lists = gen_lists(&mut r, env);
            (vals, lists)
        })
        .collect()
}

struct World {
    filters: Vec<(String, Filter)>,
    ctxs: Vec<ExecutionContext<'static>>,
    baseline: Vec<Vec<bool>>,
}

fn build_world(run: &Run, eng: &Eng, nfilters: usize, nctx: usize) -> Option<World> {
    let texts: Vec<&str> = FILTERS.iter().copied().take(nfilters).collect();
    let mut filters = Vec::new();
    for t in texts {
        match guard(|| eng.scheme.parse(t).map(|a| a.compile()).map_err(|e| e.to_string())) {
            Ok(Ok(f)) => filters.push((t.to_string(), f)),
            other => {
                run.inconclusive(format!("C18 filter does not parse: {} ({:?})", t, other.map(|r| r.map(|_| ()))));
                return None;
            }
        }
    }
    let data = contexts(eng, run.opts.seed, nctx);
    let ctxs: Vec<ExecutionContext<'static>> = data.iter().map(|(v, l)| eng.ctx(v, l)).collect();
    // sequential baseline, computed twice (repeated executions agree)
    let mut baseline = Vec::new();
    for (fi, (t, f)) in filters.iter().enumerate() {
        let mut row = Vec::new();
        for (ci, c) in ctxs.iter().enumerate() {
            let a = f.execute(c);
            let b = f.execute(c);
            match (a, b) {
                (Ok(x), Ok(y)) if x == y => row.push(x),
                other => {
                    run.violation(
                        "C18/sequential-executions-disagree",
                        "determinism",
                        "baseline",
                        (fi * 1000 + ci) as u64,
                        json!({"filter": t, "context": ci, "outcomes": format!("{:?}", other)}),
                    );
                    row.push(false);
                }
            }
        }
        baseline.push(row);
    }
    let _ = (take_call_log(), take_list_log(), take_monitor_errors());
    Some(World { filters, ctxs, baseline })
}

#[derive(Clone, Copy, Debug, PartialEq)]
enum Mode {
    /// one shared filter, one shared context
    SharedBoth,
    /// shared filter, per-thread clones of the contexts
    SharedFilter,
    /// per-thread recompilation of the same text, shared contexts
    Recompile,
    /// one shared filter executed at the same time on DIFFERENT contexts (thread
    /// t is always t contexts ahead; even threads read the shared contexts, odd
    /// threads their own clones), free-running between barriers
    Skewed,
    /// every thread executes the SAME (filter, context) cell in a tight loop, so
    /// that as many executions of one filter as there are threads overlap
    PileUp,
    /// a freshly compiled, never executed filter set per round (compiled by
    /// thread 0 while the others wait), first executed by all threads at once
    FreshShared,
}

fn storm(run: &Run, eng: &Eng, w: &World, mode: Mode, threads: usize, rounds: usize, fam: &str, idx: u64) {
    let barrier = Arc::new(Barrier::new(threads));
    let skew_reps: usize = match run.opts.variant.as_str() {
        "miri" => 2,
        "tsan" | "asan" | "dbg" | "valgrind" => 8,
        _ => 48,
    };
    let pile_reps: usize = match run.opts.variant.as_str() {
        "miri" => 2,
        "tsan" | "asan" | "dbg" | "valgrind" => 40,
        _ => 400,
    };
    let mismatches = AtomicU64::new(0);
    let execs = AtomicU64::new(0);
    let first_bad: std::sync::Mutex<Option<serde_json::Value>> = std::sync::Mutex::new(None);
    std::thread::scope(|s| {
        for tid in 0..threads {
            let barrier = barrier.clone();
            let (mismatches, execs, first_bad) = (&mismatches, &execs, &first_bad);
            s.spawn(move || {
                let own_ctxs: Vec<ExecutionContext<'static>> = if mode == Mode::SharedFilter || (mode == Mode::Skewed && tid % 2 == 1) {
                    w.ctxs.iter().map(|c| c.clone_with(())).collect()
                } else {
                    Vec::new()
                };
                let own_filters: Vec<Filter> = if mode == Mode::Recompile {
                    w.filters.iter().map(|(t, _)| eng.scheme.parse(t).unwrap().compile()).collect()
                } else {
                    Vec::new()
                };
                let mut n = 0u64;
                for round in 0..rounds {
                    for fi in 0..w.filters.len() {
                        let f = if mode == Mode::Recompile { &own_filters[fi] } else { &w.filters[fi].1 };
                        for ci in 0..w.ctxs.len() {
                            // everybody hits the same (filter, context) at the same time
                            if (ci % 4) == 0 {
                                barrier.wait();
                            }
                            if mode == Mode::PileUp {
                                if round > 0 {
                                    continue;
                                }
                                barrier.wait();
                                let c = &w.ctxs[ci];
                                for _ in 0..pile_reps {
                                    let got = f.execute(c);
                                    n += 1;
                                    if got != Ok(w.baseline[fi][ci]) {
                                        mismatches.fetch_add(1, Ordering::Relaxed);
                                        let mut fb = first_bad.lock().unwrap();
                                        if fb.is_none() {
                                            *fb = Some(json!({"filter": w.filters[fi].0, "context": ci, "thread": tid,
                                                "sequential": w.baseline[fi][ci], "concurrent": format!("{:?}", got)}));
                                        }
                                    }
                                }
                                continue;
                            }
                            if mode == Mode::Skewed {
                                let nctx = w.ctxs.len();
                                for rep in 0..skew_reps {
                                    let cj = (ci + tid + rep) % nctx;
                                    let c = if tid % 2 == 1 { &own_ctxs[cj] } else { &w.ctxs[cj] };
                                    let got = f.execute(c);
                                    n += 1;
                                    if got != Ok(w.baseline[fi][cj]) {
                                        mismatches.fetch_add(1, Ordering::Relaxed);
                                        let mut fb = first_bad.lock().unwrap();
                                        if fb.is_none() {
                                            *fb = Some(json!({"filter": w.filters[fi].0, "context": cj, "thread": tid, "round": round,
                                                "sequential": w.baseline[fi][cj], "concurrent": format!("{:?}", got)}));
                                        }
                                    }
                                }
                                continue;
                            }
                            let c = if mode == Mode::SharedFilter { &own_ctxs[ci] } else { &w.ctxs[ci] };
                            let got = f.execute(c);
                            n += 1;
                            if got != Ok(w.baseline[fi][ci]) {
                                mismatches.fetch_add(1, Ordering::Relaxed);
                                let mut fb = first_bad.lock().unwrap();
                                if fb.is_none() {
                                    *fb = Some(json!({"filter": w.filters[fi].0, "context": ci, "thread": tid, "round": round,
                                        "sequential": w.baseline[fi][ci], "concurrent": format!("{:?}", got)}));
                                }
                            }
                        }
                    }
                    let _ = (take_call_log(), take_list_log());
                }
                execs.fetch_add(n, Ordering::Relaxed);
            });
        }
    });
    run.evaluations.fetch_add(execs.load(Ordering::Relaxed), Ordering::Relaxed);
    let bad = mismatches.load(Ordering::Relaxed);
    run.counter(&format!("executions_{:?}_{}threads", mode, threads), execs.load(Ordering::Relaxed));
    if bad > 0 {
        let d = first_bad.lock().unwrap().clone().unwrap_or_default();
        let ftxt = d["filter"].as_str().unwrap_or("?").to_string();
        run.violation(
            &format!("C18/concurrent-result-differs/{:?}/{}", mode, ftxt.chars().take(40).collect::<String>()),
            "sequential-baseline",
            fam,
            idx,
            json!({"mode": format!("{:?}", mode), "threads": threads, "rounds": rounds, "mismatches": bad, "first": d}),
        );
    }
    let errs = take_monitor_errors();
    if !errs.is_empty() {
        run.violation("C18/ill-formed-value-under-concurrency", "deep-type-invariant", fam, idx, json!({"errors": errs}));
    }
}

/// Filters that differ only in the operator or in the field, with long
/// patterns: whatever is shared between compiled filters must not leak from one
/// to the other.
const TWINS: &[&str] = &[
    r#"str_m wildcard "*compatible; CRAWLER/12.5*""#,
    r#"str_m strict wildcard "*compatible; CRAWLER/12.5*""#,
    r#"str_m strict wildcard "MOZILLA/5.0 (X11; Linux x86_64)*""#,
    r#"str_m wildcard "MOZILLA/5.0 (X11; Linux x86_64)*""#,
    r#"http.host wildcard "*compatible; CRAWLER/12.5*""#,
    r#"str_m matches "compatible; crawler/[0-9]+\.[0-9]+ ""#,
    r#"http.host matches "compatible; crawler/[0-9]+\.[0-9]+ ""#,
    r#"str_m matches "COMPATIBLE; CRAWLER/[0-9]+\.[0-9]+ ""#,
    r#"str_m contains "compatible; crawler/12.5 (+http""#,
    r#"http.host contains "compatible; crawler/12.5 (+http""#,
    r#"str_m contains "COMPATIBLE; crawler/12.5 (+http""#,
    r#"num_m in {1 5..10 100..2000}"#,
    r#"num_m in {1 5..10 100..2001}"#,
    r#"not num_m in {1 5..10 100..2000}"#,
];

/// "Recompilations of the same filter on the same context always agree": the
/// results of a filter compiled while nothing else is alive, while all the
/// others are alive (compiled before it, or after it), and once more alone.
fn company_family(run: &Run, eng: &Eng) {
    let texts: Vec<&str> = FILTERS.iter().chain(TWINS.iter()).copied().collect();
    let data = contexts(eng, run.opts.seed, 16);
    let ctxs: Vec<ExecutionContext<'static>> = data.iter().map(|(v, l)| eng.ctx(v, l)).collect();
    let exec = |f: &Filter| -> Vec<Option<bool>> { ctxs.iter().map(|c| f.execute(c).ok()).collect() };
    let compile = |t: &str| -> Result<Filter, String> { eng.scheme.parse(t).map(|a| a.compile()).map_err(|e| e.to_string()) };
    let mut alone: Vec<Vec<Option<bool>>> = Vec::new();
    for t in &texts {
        match compile(t) {
            Ok(f) => alone.push(exec(&f)),
            Err(e) => {
                run.inconclusive(format!("C18 filter does not parse: {} ({})", t, e));
                return;
            }
        }
    }
    let mut check = |label: &str, order: Vec<usize>| {
        let mut alive: Vec<(usize, Filter)> = Vec::new();
        for k in order {
            alive.push((k, compile(texts[k]).unwrap()));
        }
        for (k, f) in &alive {
            let got = exec(f);
            run.evaluations.fetch_add(ctxs.len() as u64, Ordering::Relaxed);
            if got != alone[*k] {
                let ci = got.iter().zip(&alone[*k]).position(|(a, b)| a != b).unwrap_or(0);
                run.violation(
                    &format!("C18/result-depends-on-other-filters/{}/{}", label, texts[*k].chars().take(40).collect::<String>()),
                    "recompilation-agrees",
                    "company",
                    *k as u64,
                    json!({"filter": texts[*k], "situation": label, "context": ci,
                           "compiled_alone": alone[*k][ci], "compiled_in_company": got[ci]}),
                );
            }
        }
        drop(alive);
    };
    let n = texts.len();
    check("all-alive-compiled-in-order", (0..n).collect());
    check("all-alive-compiled-in-reverse-order", (0..n).rev().collect());
    check("all-alive-twins-first", (FILTERS.len()..n).chain(0..FILTERS.len()).collect());
    // and alone again, after everything else has been dropped
    for (k, t) in texts.iter().enumerate() {
        let f = compile(t).unwrap();
        if exec(&f) != alone[k] {
            run.violation(
                &format!("C18/result-depends-on-other-filters/alone-again/{}", t.chars().take(40).collect::<String>()),
                "recompilation-agrees",
                "company",
                k as u64,
                json!({"filter": t, "situation": "compiled alone a second time, after the others were dropped"}),
            );
        }
        run.distinct(hash_str(&format!("company|{}", k)));
    }
    let differing = alone.iter().filter(|r| r.iter().any(|x| *x == Some(true)) && r.iter().any(|x| *x == Some(false))).count();
    run.note("company_filters", json!({"filters": n, "with_both_outcomes_over_the_contexts": differing}));
    let _ = (take_call_log(), take_list_log(), take_monitor_errors());
}

/// Every round a new set of filters is compiled (by thread 0, the others wait
/// at a barrier) and then executed for the very first time by all threads at
/// once, filter by filter; the expected results are those of a different copy
/// of the same filters that was only ever executed sequentially.
fn fresh_storm(run: &Run, eng: &Eng, w: &World, threads: usize, rounds: usize, fam: &str, idx: u64) {
    let barrier = Barrier::new(threads);
    let slot: std::sync::RwLock<Vec<Filter>> = std::sync::RwLock::new(Vec::new());
    let mismatches = AtomicU64::new(0);
    let execs = AtomicU64::new(0);
    let first_bad: std::sync::Mutex<Option<serde_json::Value>> = std::sync::Mutex::new(None);
    let nctx = w.ctxs.len();
    std::thread::scope(|s| {
        for tid in 0..threads {
            let (barrier, slot, mismatches, execs, first_bad) = (&barrier, &slot, &mismatches, &execs, &first_bad);
            s.spawn(move || {
                let mut n = 0u64;
                for round in 0..rounds {
                    if tid == 0 {
                        let fresh: Vec<Filter> = w.filters.iter().map(|(t, _)| eng.scheme.parse(t).unwrap().compile()).collect();
                        *slot.write().unwrap() = fresh;
                    }
                    barrier.wait();
                    {
                        let fs = slot.read().unwrap();
                        for fi in 0..fs.len() {
                            barrier.wait();
                            for k in 0..nctx {
                                // even threads all start on the same context, odd ones on different ones
                                let ci = if tid % 2 == 0 { k } else { (k + tid) % nctx };
                                let got = fs[fi].execute(&w.ctxs[ci]);
                                n += 1;
                                if got != Ok(w.baseline[fi][ci]) {
                                    mismatches.fetch_add(1, Ordering::Relaxed);
                                    let mut fb = first_bad.lock().unwrap();
                                    if fb.is_none() {
                                        *fb = Some(json!({"filter": w.filters[fi].0, "context": ci, "thread": tid, "round": round,
                                            "execution_of_this_filter_object_by_this_thread": k,
                                            "sequential": w.baseline[fi][ci], "concurrent": format!("{:?}", got)}));
                                    }
                                }
                            }
                        }
                        let _ = (take_call_log(), take_list_log());
                    }
                    barrier.wait();
                }
                execs.fetch_add(n, Ordering::Relaxed);
            });
        }
    });
    run.evaluations.fetch_add(execs.load(Ordering::Relaxed), Ordering::Relaxed);
    run.counter(&format!("executions_FreshShared_{}threads", threads), execs.load(Ordering::Relaxed));
    run.counter(&format!("fresh_filter_objects_raced_{}threads", threads), (rounds * w.filters.len()) as u64);
    let bad = mismatches.load(Ordering::Relaxed);
    if bad > 0 {
        let d = first_bad.lock().unwrap().clone().unwrap_or_default();
        let ftxt = d["filter"].as_str().unwrap_or("?").to_string();
        run.violation(
            &format!("C18/concurrent-result-differs/FreshShared/{}", ftxt.chars().take(40).collect::<String>()),
            "sequential-baseline",
            fam,
            idx,
            json!({"mode": "FreshShared", "threads": threads, "rounds": rounds, "mismatches": bad, "first": d}),
        );
    }
    let errs = take_monitor_errors();
    if !errs.is_empty() {
        run.violation("C18/ill-formed-value-under-concurrency", "deep-type-invariant", fam, idx, json!({"errors": errs}));
    }
}

pub fn run(run: &Run) {
    let seed = run.opts.seed;
    let eng = Eng::new(rich_env(0));
    let variant = run.opts.variant.clone();
    let miri = variant == "miri";
    let slow = matches!(variant.as_str(), "tsan" | "asan" | "dbg" | "valgrind");

    // ---- first use of lazily initialised state, raced in fresh processes
    if !miri {
        let n = run.opts.size(64, 600);
        run.isolated("first-use", n, 120, "C18", |i, l| {
            // (child) nothing has been compiled or matched in this process yet
            let threads = 16;
            let barrier = Arc::new(Barrier::new(threads));
            let texts = [FILTERS[5], FILTERS[0], FILTERS[6], FILTERS[2], FILTERS[3], FILTERS[11]];
            let data = contexts(&eng, seed ^ i, 4);
            let results: Vec<Vec<Vec<bool>>> = std::thread::scope(|s| {
                let hs: Vec<_> = (0..threads)
                    .map(|_| {
                        let b = barrier.clone();
                        let eng = &eng;
                        let data = &data;
                        s.spawn(move || {
                            let ctxs: Vec<ExecutionContext<'static>> = data.iter().map(|(v, l)| eng.ctx(v, l)).collect();
                            b.wait();
                            texts
                                .iter()
                                .map(|t| {
                                    let f = eng.scheme.parse(t).unwrap().compile();
                                    ctxs.iter().map(|c| f.execute(c).unwrap()).collect::<Vec<bool>>()
                                })
                                .collect::<Vec<_>>()
                        })
                    })
                    .collect();
                hs.into_iter().map(|h| h.join().unwrap()).collect()
            });
            l.evals += (threads * texts.len() * 4) as u64;
            // afterwards, sequentially, in the now warm process
            let ctxs: Vec<ExecutionContext<'static>> = data.iter().map(|(v, l)| eng.ctx(v, l)).collect();
            let want: Vec<Vec<bool>> = texts
                .iter()
                .map(|t| {
                    let f = eng.scheme.parse(t).unwrap().compile();
                    ctxs.iter().map(|c| f.execute(c).unwrap()).collect()
                })
                .collect();
            for (tid, r) in results.iter().enumerate() {
                if *r != want {
                    run.violation(
                        "C18/first-use-race/result-differs-from-warm-sequential-run",
                        "sequential-baseline",
                        "first-use",
                        i,
                        json!({"thread": tid, "concurrent": format!("{:?}", r), "sequential": format!("{:?}", want)}),
                    );
                    break;
                }
            }
            run.distinct(i ^ 0xf1f1);
        });
        if run.is_child() {
            return;
        }
    }

    // ---- results are independent of which other filters are alive
    if run.opts.wants("company") {
        company_family(run, &eng);
    }

    // ---- barrier-released storms
    let (nf, nc) = if miri { (6, 2) } else { (FILTERS.len(), 16) };
    let Some(w) = build_world(run, &eng, nf, nc) else { return };
    run.note("filters", json!(w.filters.len()));
    run.note("contexts", json!(w.ctxs.len()));
    let trues: usize = w.baseline.iter().map(|r| r.iter().filter(|b| **b).count()).sum();
    run.note("baseline_true_results", json!(trues));
    run.note("baseline_false_results", json!(w.filters.len() * w.ctxs.len() - trues));
    let thread_counts: Vec<usize> = if miri { vec![3] } else { vec![2, 4, 16, 64] };
    let rounds = if miri {
        1
    } else if slow {
        if run.opts.thorough() { 12 } else { 3 }
    } else if run.opts.thorough() {
        400
    } else {
        12
    };
    let mut idx = 0u64;
    for mode in [Mode::SharedBoth, Mode::SharedFilter, Mode::Recompile, Mode::Skewed, Mode::PileUp, Mode::FreshShared] {
        for &t in &thread_counts {
            if run.opts.wants("storm") {
                if let Some(only) = run.opts.only_index("storm") {
                    if only != idx {
                        idx += 1;
                        continue;
                    }
                }
                if mode == Mode::FreshShared {
                    let fresh_rounds = if miri { 1 } else if slow { rounds.min(6) } else { rounds * 3 };
                    fresh_storm(run, &eng, &w, t, fresh_rounds, "storm", idx);
                } else {
                    storm(run, &eng, &w, mode, t, rounds, "storm", idx);
                }
                run.distinct(hash_str(&format!("{:?}|{}", mode, t)));
            }
            idx += 1;
        }
    }
    for (t, _) in w.filters.iter().take(6) {
        run.sample("storm", 6, || json!({"filter": t}));
    }
    for (fi, row) in w.baseline.iter().enumerate() {
        // every (filter, context) cell observed under every mode/thread count
        for ci in 0..row.len() {
            run.distinct(hash_str(&format!("cell|{}|{}", fi, ci)));
        }
    }
    let _ = (RType::Bool, Rng::new(1));
}
