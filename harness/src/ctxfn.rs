//! A hand-written `FunctionDefinition` with a per-call definition context (C03).
//! (filled in with the C03 monitor)

use wirefilter::{
    CompiledFunction, FunctionDefinition, FunctionDefinitionContext, FunctionParam,
    FunctionParamError, ParserSettings, Type,
};

#[derive(Debug)]
pub struct CtxFn {
    pub site: u32,
}

impl FunctionDefinition for CtxFn {
    fn check_param(
        &self,
        _settings: &ParserSettings,
        _params: &mut dyn ExactSizeIterator<Item = FunctionParam<'_>>,
        _next_param: &FunctionParam<'_>,
        _ctx: Option<&mut FunctionDefinitionContext>,
    ) -> Result<(), FunctionParamError> {
        Ok(())
    }
    fn return_type(
        &self,
        _params: &mut dyn ExactSizeIterator<Item = FunctionParam<'_>>,
        _ctx: Option<&FunctionDefinitionContext>,
    ) -> Type {
        Type::Bytes
    }
    fn arg_count(&self) -> (usize, Option<usize>) {
        (1, Some(0))
    }
    fn compile(
        &self,
        _params: &mut dyn ExactSizeIterator<Item = FunctionParam<'_>>,
        _ctx: Option<FunctionDefinitionContext>,
    ) -> CompiledFunction {
        Box::new(|args| args.next().and_then(|a| a.ok()))
    }
}
