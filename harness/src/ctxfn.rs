//! A hand-written `FunctionDefinition` with a per-call definition context (C03).
//!
//! `context()` creates a `Tag` with a fresh id. `check_param` appends to
//! `Tag::seen` going through a different accessor of
//! `FunctionDefinitionContext` for each argument position; `return_type` and
//! `compile` report what they see. Every step is appended to a thread-local
//! event log that the C03 oracle reads.

use crate::refsem::{apply_sem, CallEvent};
use crate::rv::{res_from_engine, RRes, RType};
use std::cell::RefCell;
use std::sync::atomic::{AtomicU64, Ordering};
use wirefilter::{
    CompiledFunction, FunctionArgKind, FunctionDefinition, FunctionDefinitionContext,
    FunctionParam, FunctionParamError, GetType, ParserSettings, Type, TypeMismatchError,
};

#[derive(Clone, Debug, PartialEq, Eq)]
pub struct Tag {
    pub id: u64,
    pub seen: Vec<String>,
}

#[derive(Clone, Debug, PartialEq, Eq)]
pub enum CtxEvent {
    Created { id: u64, site: u32 },
    /// `accessor` reached the Tag (`ok`) while checking argument `pos`
    Check { id: Option<u64>, site: u32, pos: usize, accessor: &'static str, ok: bool, seen_after: usize },
    ReturnType { id: Option<u64>, site: u32, params: usize, seen: usize, via: &'static str },
    Compile { id: Option<u64>, site: u32, params: usize, seen: usize, via: &'static str },
    Missing { site: u32, at: &'static str },
}

static NEXT_ID: AtomicU64 = AtomicU64::new(1);

thread_local! {
    pub static CTX_LOG: RefCell<Vec<CtxEvent>> = const { RefCell::new(Vec::new()) };
}

pub fn take_ctx_log() -> Vec<CtxEvent> {
    CTX_LOG.with(|l| std::mem::take(&mut *l.borrow_mut()))
}

fn log(e: CtxEvent) {
    CTX_LOG.with(|l| l.borrow_mut().push(e));
}

#[derive(Debug)]
pub struct CtxFn {
    pub site: u32,
}

fn describe(p: &FunctionParam<'_>) -> String {
    format!("{:?}:{:?}", p.arg_kind(), p.get_type())
}

impl FunctionDefinition for CtxFn {
    fn context(&self) -> Option<FunctionDefinitionContext> {
        let id = NEXT_ID.fetch_add(1, Ordering::Relaxed);
        log(CtxEvent::Created { id, site: self.site });
        Some(FunctionDefinitionContext::new(Tag { id, seen: vec![] }))
    }

    fn check_param(
        &self,
        _settings: &ParserSettings,
        params: &mut dyn ExactSizeIterator<Item = FunctionParam<'_>>,
        next_param: &FunctionParam<'_>,
        ctx: Option<&mut FunctionDefinitionContext>,
    ) -> Result<(), FunctionParamError> {
        let pos = params.len();
        let Some(ctx) = ctx else {
            log(CtxEvent::Missing { site: self.site, at: "check_param" });
            return Ok(());
        };
        let entry = describe(next_param);
        // a different accessor for each argument position
        let (accessor, id, seen_after): (&'static str, Option<u64>, usize) = match pos % 4 {
            0 => match ctx.as_any_mut().downcast_mut::<Tag>() {
                Some(t) => {
                    t.seen.push(entry);
                    ("as_any_mut", Some(t.id), t.seen.len())
                }
                None => ("as_any_mut", None, 0),
            },
            1 => match ctx.downcast_mut::<Tag>() {
                Some(t) => {
                    t.seen.push(entry);
                    ("downcast_mut", Some(t.id), t.seen.len())
                }
                None => ("downcast_mut", None, 0),
            },
            2 => {
                // read through as_any_ref, then write
                let seen_before = ctx.as_any_ref().downcast_ref::<Tag>().map(|t| (t.id, t.seen.len()));
                match seen_before {
                    Some((id, n)) => {
                        if let Some(t) = ctx.downcast_mut::<Tag>() {
                            t.seen.push(entry);
                        }
                        ("as_any_ref", Some(id), n + 1)
                    }
                    None => ("as_any_ref", None, 0),
                }
            }
            _ => {
                let seen_before = ctx.downcast_ref::<Tag>().map(|t| (t.id, t.seen.len()));
                match seen_before {
                    Some((id, n)) => {
                        if let Some(t) = ctx.downcast_mut::<Tag>() {
                            t.seen.push(entry);
                        }
                        ("downcast_ref", Some(id), n + 1)
                    }
                    None => ("downcast_ref", None, 0),
                }
            }
        };
        if id.is_none() {
            // keep the definition usable for the rest of the parse: record the
            // entry through the accessor that is known to work
            if let Some(t) = ctx.downcast_mut::<Tag>() {
                t.seen.push(describe(next_param));
            }
        }
        log(CtxEvent::Check {
            id,
            site: self.site,
            pos,
            accessor,
            ok: id.is_some(),
            seen_after,
        });
        // typing: every argument is Bytes, field or literal
        if next_param.get_type() != Type::Bytes {
            return Err(FunctionParamError::TypeMismatch(TypeMismatchError {
                expected: Type::Bytes.into(),
                actual: next_param.get_type(),
            }));
        }
        let _ = FunctionArgKind::Field;
        Ok(())
    }

    fn return_type(
        &self,
        params: &mut dyn ExactSizeIterator<Item = FunctionParam<'_>>,
        ctx: Option<&FunctionDefinitionContext>,
    ) -> Type {
        match ctx {
            None => log(CtxEvent::Missing { site: self.site, at: "return_type" }),
            Some(c) => {
                let (t, via) = match c.downcast_ref::<Tag>() {
                    Some(t) => (Some(t), "downcast_ref"),
                    None => (c.as_any_ref().downcast_ref::<Tag>(), "as_any_ref"),
                };
                log(CtxEvent::ReturnType {
                    id: t.map(|t| t.id),
                    site: self.site,
                    params: params.len(),
                    seen: t.map_or(0, |t| t.seen.len()),
                    via,
                });
            }
        }
        Type::Bytes
    }

    fn arg_count(&self) -> (usize, Option<usize>) {
        (1, Some(3))
    }

    fn compile(
        &self,
        params: &mut dyn ExactSizeIterator<Item = FunctionParam<'_>>,
        ctx: Option<FunctionDefinitionContext>,
    ) -> CompiledFunction {
        let nparams = params.len();
        match ctx {
            None => log(CtxEvent::Missing { site: self.site, at: "compile" }),
            Some(c) => {
                // alternate between the two consuming accessors
                if nparams % 2 == 0 {
                    match c.downcast::<Tag>() {
                        Ok(t) => log(CtxEvent::Compile {
                            id: Some(t.id),
                            site: self.site,
                            params: nparams,
                            seen: t.seen.len(),
                            via: "downcast",
                        }),
                        Err(_) => log(CtxEvent::Compile {
                            id: None,
                            site: self.site,
                            params: nparams,
                            seen: 0,
                            via: "downcast",
                        }),
                    }
                } else {
                    match c.into_any().downcast::<Tag>() {
                        Ok(t) => log(CtxEvent::Compile {
                            id: Some(t.id),
                            site: self.site,
                            params: nparams,
                            seen: t.seen.len(),
                            via: "into_any",
                        }),
                        Err(_) => log(CtxEvent::Compile {
                            id: None,
                            site: self.site,
                            params: nparams,
                            seen: 0,
                            via: "into_any",
                        }),
                    }
                }
            }
        }
        let site = self.site;
        Box::new(move |args| {
            let mut rargs: Vec<RRes> = Vec::new();
            for a in args {
                rargs.push(res_from_engine(&a).unwrap_or(Err(RType::Bool)));
            }
            let result = apply_sem(crate::ast::Sem::Ctx, &rargs);
            crate::engine::CALL_LOG.with(|l| {
                l.borrow_mut().push(CallEvent {
                    site,
                    args: rargs,
                    result: result.clone(),
                })
            });
            result.map(|r| r.to_lhs_unwrap())
        })
    }
}

// ---------------------------------------------------------------------------
// A definition that panics on demand at a chosen stage (C20).

thread_local! {
    /// 0 = never, 1 = in check_param (parse), 2 = in compile, 3 = when executed
    pub static BOOM_AT: std::cell::Cell<u8> = const { std::cell::Cell::new(0) };
}

pub fn set_boom(stage: u8) {
    BOOM_AT.with(|b| b.set(stage));
}

thread_local! {
    /// appended to the panic message so that a thread can recognise its own panic
    pub static BOOM_TAG: std::cell::Cell<u64> = const { std::cell::Cell::new(0) };
}

pub fn set_boom_tag(tag: u64) {
    BOOM_TAG.with(|b| b.set(tag));
}

fn boom_tag() -> u64 {
    BOOM_TAG.with(|b| b.get())
}

#[derive(Debug)]
pub struct BoomFn;

impl FunctionDefinition for BoomFn {
    fn check_param(
        &self,
        _settings: &ParserSettings,
        _params: &mut dyn ExactSizeIterator<Item = FunctionParam<'_>>,
        next_param: &FunctionParam<'_>,
        _ctx: Option<&mut FunctionDefinitionContext>,
    ) -> Result<(), FunctionParamError> {
        if BOOM_AT.with(|b| b.get()) == 1 {
            panic!("kaboom-in-check_param#{}#", boom_tag());
        }
        if next_param.get_type() != Type::Bytes {
            return Err(FunctionParamError::TypeMismatch(TypeMismatchError {
                expected: Type::Bytes.into(),
                actual: next_param.get_type(),
            }));
        }
        Ok(())
    }
    fn return_type(
        &self,
        _params: &mut dyn ExactSizeIterator<Item = FunctionParam<'_>>,
        _ctx: Option<&FunctionDefinitionContext>,
    ) -> Type {
        Type::Bytes
    }
    fn arg_count(&self) -> (usize, Option<usize>) {
        (1, Some(0))
    }
    fn compile(
        &self,
        _params: &mut dyn ExactSizeIterator<Item = FunctionParam<'_>>,
        _ctx: Option<FunctionDefinitionContext>,
    ) -> CompiledFunction {
        if BOOM_AT.with(|b| b.get()) == 2 {
            panic!("kaboom-in-compile#{}#", boom_tag());
        }
        Box::new(|args| {
            if BOOM_AT.with(|b| b.get()) == 3 {
                // a destructor that runs while the panic unwinds (legal user code)
                struct SlowUnwind;
                impl Drop for SlowUnwind {
                    fn drop(&mut self) {
                        for _ in 0..6 {
                            std::thread::yield_now();
                        }
                    }
                }
                let _g = SlowUnwind;
                panic!("kaboom-in-execute#{}#", boom_tag());
            }
            args.next().and_then(|a| a.ok())
        })
    }
}
