//! Deterministic PRNG (xoshiro256**) seeded by splitmix64. No OS entropy, no
//! wall clock: a (seed, property, family, index) tuple always regenerates the
//! same case.

#[derive(Clone, Debug)]
pub struct Rng {
    s: [u64; 4],
}

pub fn splitmix(x: &mut u64) -> u64 {
    *x = x.wrapping_add(0x9E37_79B9_7F4A_7C15);
    let mut z = *x;
    z = (z ^ (z >> 30)).wrapping_mul(0xBF58_476D_1CE4_E5B9);
    z = (z ^ (z >> 27)).wrapping_mul(0x94D0_49BB_1331_11EB);
    z ^ (z >> 31)
}

/// FNV-1a, used for case hashing (dedup) and for deriving sub-seeds from text.
pub fn fnv1a(bytes: &[u8]) -> u64 {
    let mut h: u64 = 0xcbf2_9ce4_8422_2325;
    for b in bytes {
        h ^= *b as u64;
        h = h.wrapping_mul(0x0000_0100_0000_01b3);
    }
    h
}

pub fn mix(a: u64, b: u64) -> u64 {
    let mut x = a ^ b.rotate_left(32) ^ 0xD6E8_FEB8_6659_FD93;
    let r = splitmix(&mut x);
    r ^ splitmix(&mut x)
}

impl Rng {
    pub fn new(seed: u64) -> Self {
        let mut x = seed;
        let s = [
            splitmix(&mut x),
            splitmix(&mut x),
            splitmix(&mut x),
            splitmix(&mut x),
        ];
        Rng { s }
    }

    /// Derive a generator for (seed, tag, index).
    pub fn derive(seed: u64, tag: &str, index: u64) -> Self {
        Rng::new(mix(mix(seed, fnv1a(tag.as_bytes())), index))
    }

    #[inline]
    pub fn next(&mut self) -> u64 {
        let result = self.s[1].wrapping_mul(5).rotate_left(7).wrapping_mul(9);
        let t = self.s[1] << 17;
        self.s[2] ^= self.s[0];
        self.s[3] ^= self.s[1];
        self.s[1] ^= self.s[2];
        self.s[0] ^= self.s[3];
        self.s[2] ^= t;
        self.s[3] = self.s[3].rotate_left(45);
        result
    }

    /// Uniform in 0..n (n > 0).
    #[inline]
    pub fn below(&mut self, n: usize) -> usize {
        debug_assert!(n > 0);
        ((self.next() as u128 * n as u128) >> 64) as usize
    }

    /// Uniform in lo..=hi.
    #[inline]
    pub fn range(&mut self, lo: usize, hi: usize) -> usize {
        lo + self.below(hi - lo + 1)
    }

    #[inline]
    pub fn bool(&mut self) -> bool {
        self.next() & 1 == 1
    }

    /// True with probability num/den.
    #[inline]
    pub fn chance(&mut self, num: usize, den: usize) -> bool {
        self.below(den) < num
    }

    pub fn pick<'a, T>(&mut self, xs: &'a [T]) -> &'a T {
        &xs[self.below(xs.len())]
    }

    pub fn shuffle<T>(&mut self, xs: &mut [T]) {
        for i in (1..xs.len()).rev() {
            let j = self.below(i + 1);
            xs.swap(i, j);
        }
    }

    pub fn i64_any(&mut self) -> i64 {
        self.next() as i64
    }
}
