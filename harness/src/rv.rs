//! The harness's own value and type representation ("RV"/"RType"), independent
//! of the engine's `LhsValue`/`Type`, plus converters that use only the
//! engine's public accessors and check the deep type invariant on the way.

use serde_json::{json, Value as J};
use std::collections::BTreeMap;
use std::net::IpAddr;
use wirefilter::{Array, GetType, LhsValue, Map, Type, TypeMismatchError};

#[derive(Clone, PartialEq, Eq, Hash, Debug, PartialOrd, Ord)]
pub enum RType {
    Bool,
    Int,
    Ip,
    Bytes,
    Array(Box<RType>),
    Map(Box<RType>),
}

impl RType {
    pub fn arr(t: RType) -> RType {
        RType::Array(Box::new(t))
    }
    pub fn map(t: RType) -> RType {
        RType::Map(Box::new(t))
    }
    pub fn bool_arr() -> RType {
        RType::arr(RType::Bool)
    }
    pub fn elem(&self) -> Option<&RType> {
        match self {
            RType::Array(t) | RType::Map(t) => Some(t),
            _ => None,
        }
    }
    pub fn is_scalar(&self) -> bool {
        self.elem().is_none()
    }
    pub fn depth(&self) -> usize {
        match self.elem() {
            Some(t) => 1 + t.depth(),
            None => 0,
        }
    }
    pub fn primitive(&self) -> &RType {
        match self.elem() {
            Some(t) => t.primitive(),
            None => self,
        }
    }
    pub fn to_engine(&self) -> Type {
        match self {
            RType::Bool => Type::Bool,
            RType::Int => Type::Int,
            RType::Ip => Type::Ip,
            RType::Bytes => Type::Bytes,
            RType::Array(t) => Type::Array(t.to_engine().into()),
            RType::Map(t) => Type::Map(t.to_engine().into()),
        }
    }
    pub fn from_engine(t: Type) -> RType {
        match t {
            Type::Bool => RType::Bool,
            Type::Int => RType::Int,
            Type::Ip => RType::Ip,
            Type::Bytes => RType::Bytes,
            Type::Array(c) => RType::arr(RType::from_engine(c.into())),
            Type::Map(c) => RType::map(RType::from_engine(c.into())),
        }
    }
    /// JSON form documented by the engine: "Int" or {"Array": <T>}.
    pub fn to_json(&self) -> J {
        match self {
            RType::Bool => json!("Bool"),
            RType::Int => json!("Int"),
            RType::Ip => json!("Ip"),
            RType::Bytes => json!("Bytes"),
            RType::Array(t) => json!({"Array": t.to_json()}),
            RType::Map(t) => json!({"Map": t.to_json()}),
        }
    }
    pub fn short(&self) -> String {
        match self {
            RType::Bool => "Bool".into(),
            RType::Int => "Int".into(),
            RType::Ip => "Ip".into(),
            RType::Bytes => "Bytes".into(),
            RType::Array(t) => format!("Array<{}>", t.short()),
            RType::Map(t) => format!("Map<{}>", t.short()),
        }
    }
}

#[derive(Clone, PartialEq, Eq, Debug, Hash, PartialOrd, Ord)]
pub enum RV {
    Bool(bool),
    Int(i64),
    Ip(IpAddr),
    Bytes(Vec<u8>),
    /// element type, elements
    Array(RType, Vec<RV>),
    /// element type, entries sorted by key bytes
    Map(RType, BTreeMap<Vec<u8>, RV>),
}

impl RV {
    pub fn ty(&self) -> RType {
        match self {
            RV::Bool(_) => RType::Bool,
            RV::Int(_) => RType::Int,
            RV::Ip(_) => RType::Ip,
            RV::Bytes(_) => RType::Bytes,
            RV::Array(t, _) => RType::arr(t.clone()),
            RV::Map(t, _) => RType::map(t.clone()),
        }
    }

    pub fn bool_arr(v: Vec<bool>) -> RV {
        RV::Array(RType::Bool, v.into_iter().map(RV::Bool).collect())
    }

    /// Is every nested element of the declared element type?
    pub fn well_formed(&self) -> bool {
        match self {
            RV::Array(t, xs) => xs.iter().all(|x| &x.ty() == t && x.well_formed()),
            RV::Map(t, m) => m.values().all(|x| &x.ty() == t && x.well_formed()),
            _ => true,
        }
    }

    /// Convert to an owned engine value through the public, checked constructors.
    pub fn to_lhs(&self) -> Result<LhsValue<'static>, TypeMismatchError> {
        Ok(match self {
            RV::Bool(b) => LhsValue::Bool(*b),
            RV::Int(i) => LhsValue::Int(*i),
            RV::Ip(a) => LhsValue::Ip(*a),
            RV::Bytes(b) => LhsValue::Bytes(b.clone().into()),
            RV::Array(t, xs) => {
                let mut v = Vec::with_capacity(xs.len());
                for x in xs {
                    v.push(x.to_lhs()?);
                }
                LhsValue::Array(Array::try_from_iter(t.to_engine(), v)?)
            }
            RV::Map(t, m) => {
                let mut v: Vec<Result<(Box<[u8]>, LhsValue<'static>), TypeMismatchError>> =
                    Vec::with_capacity(m.len());
                for (k, x) in m {
                    v.push(Ok((k.clone().into_boxed_slice(), x.to_lhs()?)));
                }
                LhsValue::Map(Map::try_from_iter(t.to_engine(), v)?)
            }
        })
    }

    pub fn to_lhs_unwrap(&self) -> LhsValue<'static> {
        self.to_lhs().expect("harness value must be homogeneous")
    }

    /// Walk an engine value with public accessors only. Fails (with a path
    /// description) if any element's dynamic type differs from the declared
    /// element type of its container: the *deep type invariant*.
    pub fn from_lhs(v: &LhsValue<'_>) -> Result<RV, String> {
        Ok(match v {
            LhsValue::Bool(b) => RV::Bool(*b),
            LhsValue::Int(i) => RV::Int(*i),
            LhsValue::Ip(a) => RV::Ip(*a),
            LhsValue::Bytes(b) => RV::Bytes(b.to_vec()),
            LhsValue::Array(a) => {
                let et = RType::from_engine(a.value_type());
                let mut out = Vec::with_capacity(a.len());
                for (i, x) in a.iter().enumerate() {
                    let xt = RType::from_engine(x.get_type());
                    if xt != et {
                        return Err(format!(
                            "array element {} has type {} but the array declares {}",
                            i,
                            xt.short(),
                            et.short()
                        ));
                    }
                    out.push(RV::from_lhs(x)?);
                }
                if out.len() != a.len() {
                    return Err("array len() disagrees with iteration".into());
                }
                RV::Array(et, out)
            }
            LhsValue::Map(m) => {
                let et = RType::from_engine(m.value_type());
                let mut out = BTreeMap::new();
                let mut prev: Option<Vec<u8>> = None;
                for (k, x) in m.iter() {
                    let xt = RType::from_engine(x.get_type());
                    if xt != et {
                        return Err(format!(
                            "map value at key {:?} has type {} but the map declares {}",
                            k,
                            xt.short(),
                            et.short()
                        ));
                    }
                    if let Some(p) = &prev {
                        if p.as_slice() >= k {
                            return Err("map iteration not in ascending key order".into());
                        }
                    }
                    prev = Some(k.to_vec());
                    out.insert(k.to_vec(), RV::from_lhs(x)?);
                }
                if out.len() != m.len() {
                    return Err("map len() disagrees with iteration".into());
                }
                RV::Map(et, out)
            }
        })
    }

    /// The JSON encoding the engine documents for values.
    pub fn to_json(&self) -> J {
        match self {
            RV::Bool(b) => json!(b),
            RV::Int(i) => json!(i),
            RV::Ip(a) => json!(a.to_string()),
            RV::Bytes(b) => bytes_json(b),
            RV::Array(_, xs) => J::Array(xs.iter().map(|x| x.to_json()).collect()),
            RV::Map(_, m) => {
                if m.keys().all(|k| std::str::from_utf8(k).is_ok()) {
                    let mut o = serde_json::Map::new();
                    for (k, v) in m {
                        o.insert(String::from_utf8(k.clone()).unwrap(), v.to_json());
                    }
                    J::Object(o)
                } else {
                    J::Array(
                        m.iter()
                            .map(|(k, v)| J::Array(vec![bytes_json(k), v.to_json()]))
                            .collect(),
                    )
                }
            }
        }
    }

    /// Compact human-readable rendering for samples / replay files.
    pub fn show(&self) -> String {
        match self {
            RV::Bool(b) => b.to_string(),
            RV::Int(i) => i.to_string(),
            RV::Ip(a) => a.to_string(),
            RV::Bytes(b) => show_bytes(b),
            RV::Array(t, xs) if xs.is_empty() => format!("[]:{}", t.short()),
            RV::Map(t, m) if m.is_empty() => format!("{{}}:{}", t.short()),
            RV::Array(_, xs) => format!(
                "[{}]",
                xs.iter().map(|x| x.show()).collect::<Vec<_>>().join(",")
            ),
            RV::Map(_, m) => format!(
                "{{{}}}",
                m.iter()
                    .map(|(k, v)| format!("{}:{}", show_bytes(k), v.show()))
                    .collect::<Vec<_>>()
                    .join(",")
            ),
        }
    }
}

pub fn bytes_json(b: &[u8]) -> J {
    match std::str::from_utf8(b) {
        Ok(s) => json!(s),
        Err(_) => J::Array(b.iter().map(|x| json!(*x)).collect()),
    }
}

pub fn show_bytes(b: &[u8]) -> String {
    let mut s = String::from("\"");
    for &c in b {
        if (0x20..0x7f).contains(&c) && c != b'"' && c != b'\\' {
            s.push(c as char);
        } else {
            s.push_str(&format!("\\x{:02x}", c));
        }
    }
    s.push('"');
    s
}

/// A value-or-typed-absence, as handed to functions and returned by value
/// expressions.
pub type RRes = Result<RV, RType>;

pub fn show_res(r: &RRes) -> String {
    match r {
        Ok(v) => v.show(),
        Err(t) => format!("<absent {}>", t.short()),
    }
}

pub fn res_from_engine(r: &Result<LhsValue<'_>, Type>) -> Result<RRes, String> {
    match r {
        Ok(v) => RV::from_lhs(v).map(Ok),
        Err(t) => Ok(Err(RType::from_engine(*t))),
    }
}
