//! The harness's own filter AST ("RExpr"), independent of the engine's.
//! Generators build these; `printer` renders them to text; `refsem` gives them
//! meaning (type checking and evaluation); `canon` gives their canonical JSON.

use crate::rv::{RType, RV};
use std::net::IpAddr;

#[derive(Clone, Debug, PartialEq, Eq, Hash)]
pub enum ArgKind {
    Literal,
    Field,
    Both,
}

/// Behaviour of a harness-registered function (shared by RefSem and by the
/// engine-side implementation, which is a thin logging adapter).
#[derive(Clone, Copy, Debug, PartialEq, Eq, Hash)]
pub enum Sem {
    /// returns argument 0 unchanged
    Ident,
    /// length of Bytes / Array / Map argument 0
    Len,
    /// ASCII upper-case of Bytes
    Upper,
    /// wrapping sum of all Int arguments (mandatory + optional)
    Add,
    /// first element of an array (absent when empty)
    First,
    /// number of `true` in an Array(Bool)
    CountTrue,
    /// Int -> Int, absent for odd inputs
    DropOdd,
    /// Bool -> Bool negation
    BoolNot,
    /// Bytes (field only) ++ Bytes (literal only) [++ optional Bytes default]
    Glue,
    /// built-in ConcatFunction
    Concat,
    /// hand-written definition with a per-call context (C03)
    Ctx,
    /// panics on demand (C20)
    Boom,
    /// Bool -> Array(Bool) with that single element
    Lift,
    /// (Bool, T) -> T: the second argument whenever the first has a value
    Pick,
    /// identity on nested containers (the result is an owned container)
    Own,
}

#[derive(Clone, Debug)]
pub struct FuncDesc {
    pub name: String,
    pub sem: Sem,
    pub params: Vec<(ArgKind, RType)>,
    pub opts: Vec<(ArgKind, RV)>,
    pub ret: RType,
    /// alias number: distinct fn pointer / log tag per registered name
    pub site: u32,
}

#[derive(Clone, Debug)]
pub struct FieldDesc {
    pub name: String,
    pub ty: RType,
    pub optional: bool,
}

#[derive(Clone, Copy, Debug, PartialEq, Eq, Hash)]
pub enum ListKind {
    Harness,
    Always,
    Never,
}

/// Description of a scheme (what the harness registered, in order).
#[derive(Clone, Debug)]
pub struct Env {
    pub fields: Vec<FieldDesc>,
    pub funcs: Vec<FuncDesc>,
    pub lists: Vec<(RType, ListKind)>,
    pub nil_ne: bool,
}

impl Env {
    pub fn field(&self, name: &str) -> Option<usize> {
        self.fields.iter().position(|f| f.name == name)
    }
    pub fn func(&self, name: &str) -> Option<usize> {
        self.funcs.iter().position(|f| f.name == name)
    }
    pub fn has_list(&self, t: &RType) -> bool {
        self.lists.iter().any(|(lt, _)| lt == t)
    }
    pub fn list_kind(&self, t: &RType) -> Option<ListKind> {
        self.lists.iter().find(|(lt, _)| lt == t).map(|x| x.1)
    }
}

#[derive(Clone, Copy, Debug, PartialEq, Eq, Hash)]
pub enum BytesForm {
    Quoted,
    Raw(u8),
    /// separator byte: b':' b'-' b'.'
    Hex(u8),
}

#[derive(Clone, Debug, PartialEq, Eq, Hash)]
pub struct BytesLit {
    pub data: Vec<u8>,
    pub form: BytesForm,
}

impl BytesLit {
    pub fn quoted(data: impl Into<Vec<u8>>) -> Self {
        BytesLit {
            data: data.into(),
            form: BytesForm::Quoted,
        }
    }
}

#[derive(Clone, Debug, PartialEq, Eq, Hash)]
pub enum Lit {
    Int(i64),
    Ip(IpAddr),
    Bytes(BytesLit),
}

impl Lit {
    pub fn ty(&self) -> RType {
        match self {
            Lit::Int(_) => RType::Int,
            Lit::Ip(_) => RType::Ip,
            Lit::Bytes(_) => RType::Bytes,
        }
    }
    pub fn to_rv(&self) -> RV {
        match self {
            Lit::Int(i) => RV::Int(*i),
            Lit::Ip(a) => RV::Ip(*a),
            Lit::Bytes(b) => RV::Bytes(b.data.clone()),
        }
    }
}

#[derive(Clone, Debug, PartialEq, Eq, Hash)]
pub enum IntItem {
    One(i64),
    Range(i64, i64),
}

#[derive(Clone, Debug, PartialEq, Eq, Hash)]
pub enum IpItem {
    Addr(IpAddr),
    /// network address, prefix length
    Cidr(IpAddr, u8),
    Range(IpAddr, IpAddr),
}

#[derive(Clone, Debug, PartialEq, Eq, Hash)]
pub enum SetLit {
    Int(Vec<IntItem>),
    Ip(Vec<IpItem>),
    Bytes(Vec<BytesLit>),
}

impl SetLit {
    pub fn ty(&self) -> RType {
        match self {
            SetLit::Int(_) => RType::Int,
            SetLit::Ip(_) => RType::Ip,
            SetLit::Bytes(_) => RType::Bytes,
        }
    }
    pub fn len(&self) -> usize {
        match self {
            SetLit::Int(v) => v.len(),
            SetLit::Ip(v) => v.len(),
            SetLit::Bytes(v) => v.len(),
        }
    }
}

#[derive(Clone, Copy, Debug, PartialEq, Eq, Hash)]
pub enum OrdOp {
    Eq,
    Ne,
    Ge,
    Le,
    Gt,
    Lt,
}

pub const ORD_OPS: [OrdOp; 6] = [
    OrdOp::Eq,
    OrdOp::Ne,
    OrdOp::Ge,
    OrdOp::Le,
    OrdOp::Gt,
    OrdOp::Lt,
];

/// A regex literal: `pattern` is what must reach the regex engine.
#[derive(Clone, Debug, PartialEq, Eq, Hash)]
pub struct RegexLit {
    pub pattern: String,
    /// None = quoted form, Some(n) = raw string with n hashes
    pub raw: Option<u8>,
}

#[derive(Clone, Debug, PartialEq, Eq, Hash)]
pub enum CmpOp {
    IsTrue,
    Ord(OrdOp, Lit),
    BitAnd(i64),
    Contains(BytesLit),
    Matches(RegexLit),
    Wildcard { strict: bool, pat: BytesLit },
    InSet(SetLit),
    InList(String),
}

#[derive(Clone, Debug, PartialEq, Eq, Hash)]
pub enum Idx {
    Arr(u32),
    Key(String),
    Each,
}

#[derive(Clone, Debug, PartialEq, Eq, Hash)]
pub enum Base {
    Field(usize),
    Call(Box<Call>),
}

#[derive(Clone, Debug, PartialEq, Eq, Hash)]
pub struct Path {
    pub base: Base,
    pub idx: Vec<Idx>,
}

impl Path {
    pub fn field(f: usize) -> Path {
        Path {
            base: Base::Field(f),
            idx: vec![],
        }
    }
    pub fn each_count(&self) -> usize {
        self.idx.iter().filter(|i| **i == Idx::Each).count()
    }
}

#[derive(Clone, Debug, PartialEq, Eq, Hash)]
pub struct Call {
    pub func: usize,
    pub args: Vec<Arg>,
}

#[derive(Clone, Debug, PartialEq, Eq, Hash)]
pub enum Arg {
    Path(Path),
    Lit(Lit),
    Logical(Expr),
}

#[derive(Clone, Copy, Debug, PartialEq, Eq, Hash, PartialOrd, Ord)]
pub enum LogOp {
    Or,
    Xor,
    And,
}

pub const LOG_OPS: [LogOp; 3] = [LogOp::Or, LogOp::Xor, LogOp::And];

#[derive(Clone, Copy, Debug, PartialEq, Eq, Hash)]
pub enum QOp {
    Any,
    All,
}

#[derive(Clone, Debug, PartialEq, Eq, Hash)]
pub enum QArg {
    Path(Path),
    Logical(Box<Expr>),
}

#[derive(Clone, Debug, PartialEq, Eq, Hash)]
pub enum Expr {
    Cmp(Path, CmpOp),
    Not(Box<Expr>),
    Paren(Box<Expr>),
    Comb(LogOp, Vec<Expr>),
    Quant(QOp, QArg),
}

impl Expr {
    pub fn not(e: Expr) -> Expr {
        Expr::Not(Box::new(e))
    }
    pub fn paren(e: Expr) -> Expr {
        Expr::Paren(Box::new(e))
    }

    /// Does the rendered text of this expression start with a token that makes
    /// the argument parser treat it as a logical expression (`(`, `not`/`!`,
    /// `any(`/`all(`)? A comparison starting with an identifier is also fine
    /// when it stands alone (not as the head of a chain).
    pub fn starts_logical(&self) -> bool {
        match self {
            Expr::Cmp(..) => false,
            Expr::Not(_) | Expr::Paren(_) | Expr::Quant(..) => true,
            Expr::Comb(_, items) => items[0].starts_logical(),
        }
    }

    /// Insert the parentheses the concrete grammar needs so that printing the
    /// tree and parsing it again yields the same structure:
    /// * a `Comb` child of a `Comb` must bind strictly tighter than its parent;
    /// * the operand of `not` must be a simple expression.
    pub fn normalize(self) -> Expr {
        match self {
            Expr::Cmp(p, op) => Expr::Cmp(p.normalize(), op),
            Expr::Not(e) => {
                let e = e.normalize();
                match e {
                    Expr::Comb(..) => Expr::not(Expr::paren(e)),
                    _ => Expr::not(e),
                }
            }
            Expr::Paren(e) => Expr::paren(e.normalize()),
            Expr::Comb(op, items) => {
                let items = items
                    .into_iter()
                    .map(|it| {
                        let it = it.normalize();
                        match &it {
                            Expr::Comb(cop, _) if *cop <= op => Expr::paren(it),
                            _ => it,
                        }
                    })
                    .collect();
                Expr::Comb(op, items)
            }
            Expr::Quant(q, arg) => Expr::Quant(
                q,
                match arg {
                    QArg::Path(p) => QArg::Path(p.normalize()),
                    QArg::Logical(e) => QArg::Logical(Box::new(normalize_arg_expr(e.normalize()))),
                },
            ),
        }
    }
}

/// An expression in argument position must either be a lone comparison with an
/// operator, or start with a token that switches the argument parser to
/// logical-expression mode.
fn normalize_arg_expr(e: Expr) -> Expr {
    match &e {
        Expr::Cmp(_, CmpOp::IsTrue) => Expr::paren(e),
        Expr::Cmp(..) => e,
        _ if e.starts_logical() => e,
        _ => Expr::paren(e),
    }
}

impl Path {
    pub fn normalize(self) -> Path {
        Path {
            base: match self.base {
                Base::Field(f) => Base::Field(f),
                Base::Call(c) => Base::Call(Box::new(c.normalize())),
            },
            idx: self.idx,
        }
    }
}

impl Call {
    pub fn normalize(self) -> Call {
        Call {
            func: self.func,
            args: self
                .args
                .into_iter()
                .map(|a| match a {
                    Arg::Path(p) => Arg::Path(p.normalize()),
                    Arg::Lit(l) => Arg::Lit(l),
                    Arg::Logical(e) => Arg::Logical(normalize_arg_expr(e.normalize())),
                })
                .collect(),
        }
    }
}
