//! Stack high-water-mark measurement by stack painting: run a closure on a
//! fresh thread with a known stack size, fill the unused part of the stack
//! with a pattern first, and afterwards find the lowest address that was
//! overwritten.

use std::sync::mpsc;

const PATTERN: u8 = 0xA5;

fn stack_bounds() -> Option<(usize, usize)> {
    unsafe {
        let mut attr: libc::pthread_attr_t = std::mem::zeroed();
        if libc::pthread_getattr_np(libc::pthread_self(), &mut attr) != 0 {
            return None;
        }
        let mut addr: *mut libc::c_void = std::ptr::null_mut();
        let mut size: libc::size_t = 0;
        let rc = libc::pthread_attr_getstack(&attr, &mut addr, &mut size);
        libc::pthread_attr_destroy(&mut attr);
        if rc != 0 {
            return None;
        }
        Some((addr as usize, size))
    }
}

#[inline(never)]
fn approx_sp() -> usize {
    let x = 0u8;
    &x as *const u8 as usize
}

/// Runs `f` on a new thread with `stack_size` bytes of stack and returns
/// (result, bytes of stack used by `f`), or None if the platform calls failed.
pub fn measure<T: Send + 'static>(
    stack_size: usize,
    f: impl FnOnce() -> T + Send + 'static,
) -> Option<(T, usize)> {
    let (tx, rx) = mpsc::channel();
    let h = std::thread::Builder::new()
        .stack_size(stack_size)
        .spawn(move || {
            let bounds = stack_bounds();
            let Some((lo, size)) = bounds else {
                let _ = tx.send(None);
                return;
            };
            let sp = approx_sp();
            // leave the guard area and a margin below the current frame alone
            let paint_lo = lo + 2 * 4096;
            let paint_hi = sp.saturating_sub(2048);
            if paint_hi <= paint_lo || sp < lo || sp > lo + size {
                let _ = tx.send(None);
                return;
            }
            unsafe {
                let mut p = paint_lo as *mut u8;
                while (p as usize) < paint_hi {
                    std::ptr::write_volatile(p, PATTERN);
                    p = p.add(1);
                }
            }
            let r = f();
            let mut first_touched = paint_hi;
            unsafe {
                let mut p = paint_lo as *const u8;
                // scan 8 bytes at a time
                while (p as usize) + 8 <= paint_hi {
                    let w = std::ptr::read_volatile(p as *const u64);
                    if w != u64::from_ne_bytes([PATTERN; 8]) {
                        first_touched = p as usize;
                        break;
                    }
                    p = p.add(8);
                }
            }
            let used = (lo + size).saturating_sub(first_touched);
            let base_used = (lo + size).saturating_sub(sp);
            let _ = tx.send(Some((r, used.saturating_sub(base_used))));
        })
        .ok()?;
    let out = rx.recv().ok().flatten();
    let _ = h.join();
    out
}
