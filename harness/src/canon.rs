//! The canonical JSON document that the structure of a filter determines
//! (C07), computed from the harness AST only.

use crate::ast::*;
use crate::rv::bytes_json;
use serde_json::{json, Value as J};
use std::net::IpAddr;

pub fn bytes_lit(b: &BytesLit) -> J {
    match b.form {
        BytesForm::Quoted | BytesForm::Raw(_) => bytes_json(&b.data),
        BytesForm::Hex(_) => J::Array(b.data.iter().map(|x| json!(*x)).collect()),
    }
}

pub fn lit(l: &Lit) -> J {
    match l {
        Lit::Int(i) => json!(i),
        Lit::Ip(a) => json!(a.to_string()),
        Lit::Bytes(b) => bytes_lit(b),
    }
}

fn cidr_str(a: &IpAddr, len: u8) -> String {
    let full = if a.is_ipv4() { 32 } else { 128 };
    if len == full {
        a.to_string()
    } else {
        format!("{}/{}", a, len)
    }
}

pub fn set(s: &SetLit) -> J {
    match s {
        SetLit::Int(items) => J::Array(
            items
                .iter()
                .map(|it| match it {
                    IntItem::One(a) => json!({"start": a, "end": a}),
                    IntItem::Range(a, b) => json!({"start": a, "end": b}),
                })
                .collect(),
        ),
        SetLit::Ip(items) => J::Array(
            items
                .iter()
                .map(|it| match it {
                    IpItem::Addr(a) => json!(a.to_string()),
                    IpItem::Cidr(a, l) => json!(cidr_str(a, *l)),
                    IpItem::Range(a, b) => json!({"start": a.to_string(), "end": b.to_string()}),
                })
                .collect(),
        ),
        SetLit::Bytes(items) => J::Array(items.iter().map(bytes_lit).collect()),
    }
}

pub fn path(env: &Env, p: &Path) -> J {
    let base = match &p.base {
        Base::Field(f) => json!(env.fields[*f].name),
        Base::Call(c) => call(env, c),
    };
    if p.idx.is_empty() {
        base
    } else {
        let mut v = vec![base];
        for i in &p.idx {
            v.push(match i {
                Idx::Arr(n) => json!({"kind": "ArrayIndex", "value": n}),
                Idx::Key(k) => json!({"kind": "MapKey", "value": k}),
                Idx::Each => json!({"kind": "MapEach"}),
            });
        }
        J::Array(v)
    }
}

pub fn call(env: &Env, c: &Call) -> J {
    let args: Vec<J> = c
        .args
        .iter()
        .map(|a| match a {
            Arg::Path(p) => json!({"kind": "IndexExpr", "value": path(env, p)}),
            Arg::Lit(l) => json!({"kind": "Literal", "value": lit(l)}),
            Arg::Logical(e) => json!({"kind": "SimpleExpr", "value": expr(env, e)}),
        })
        .collect();
    json!({"name": env.funcs[c.func].name, "args": args})
}

pub fn ord_name(o: OrdOp) -> &'static str {
    match o {
        OrdOp::Eq => "Equal",
        OrdOp::Ne => "NotEqual",
        OrdOp::Ge => "GreaterThanEqual",
        OrdOp::Le => "LessThanEqual",
        OrdOp::Gt => "GreaterThan",
        OrdOp::Lt => "LessThan",
    }
}

pub fn expr(env: &Env, e: &Expr) -> J {
    match e {
        Expr::Cmp(p, op) => {
            let lhs = path(env, p);
            match op {
                CmpOp::IsTrue => json!({"lhs": lhs, "op": "IsTrue"}),
                CmpOp::Ord(o, l) => json!({"lhs": lhs, "op": ord_name(*o), "rhs": lit(l)}),
                CmpOp::BitAnd(m) => json!({"lhs": lhs, "op": "BitwiseAnd", "rhs": m}),
                CmpOp::Contains(b) => json!({"lhs": lhs, "op": "Contains", "rhs": bytes_lit(b)}),
                CmpOp::Matches(r) => json!({"lhs": lhs, "op": "Matches", "rhs": r.pattern}),
                CmpOp::Wildcard { strict, pat } => json!({
                    "lhs": lhs,
                    "op": if *strict { "Strict Wildcard" } else { "Wildcard" },
                    "rhs": bytes_lit(pat),
                }),
                CmpOp::InSet(s) => json!({"lhs": lhs, "op": "OneOf", "rhs": set(s)}),
                CmpOp::InList(n) => json!({"lhs": lhs, "op": "InList", "rhs": n}),
            }
        }
        Expr::Not(inner) => json!({"op": "Not", "arg": expr(env, inner)}),
        Expr::Paren(inner) => expr(env, inner),
        Expr::Comb(op, items) => json!({
            "op": match op { LogOp::And => "And", LogOp::Or => "Or", LogOp::Xor => "Xor" },
            "items": items.iter().map(|i| expr(env, i)).collect::<Vec<_>>(),
        }),
        Expr::Quant(q, arg) => json!({
            "op": match q { QOp::Any => "Any", QOp::All => "All" },
            "arg": match arg {
                QArg::Path(p) => json!({"kind": "IndexExpr", "value": path(env, p)}),
                QArg::Logical(e) => json!({"kind": "SimpleExpr", "value": expr(env, e)}),
            },
        }),
    }
}
