//! Run bookkeeping shared by all monitors: parallel driver, violation
//! collection (deduplicated by signature), counters, distinct-case counting,
//! samples, and the JSON result document handed to the supervisor.

use serde_json::{json, Value as J};
use std::cell::RefCell;
use std::collections::{BTreeMap, HashSet};
use std::panic::{catch_unwind, AssertUnwindSafe};
use std::sync::atomic::{AtomicU64, Ordering};
use std::sync::Mutex;
use std::time::Instant;

#[derive(Clone, Debug)]
pub struct Opts {
    pub prop: String,
    pub tier: String,
    pub seed: u64,
    pub jobs: usize,
    pub variant: String,
    /// run only this family (and optionally only this index)
    pub only: Option<(String, Option<u64>)>,
    pub out: Option<String>,
    pub extra: BTreeMap<String, String>,
}

impl Opts {
    pub fn thorough(&self) -> bool {
        self.tier == "thorough"
    }
    /// workload size: `q` for quick, `t` for thorough, scaled down for the
    /// slow build variants
    pub fn size(&self, q: u64, t: u64) -> u64 {
        let base = if self.thorough() { t } else { q };
        let div = match self.variant.as_str() {
            "dbg" => 8,
            "asan" => 10,
            "tsan" => 10,
            "valgrind" => 60,
            _ => 1,
        };
        if self.variant == "miri" {
            // Miri runs in the thorough tier only, in 16 single-core shards of
            // about 20 s per case: sized from the quick figure, not the tier's
            return (q / 200).max(32);
        }
        (base / div).max(1)
    }
    pub fn wants(&self, family: &str) -> bool {
        match &self.only {
            None => true,
            Some((f, _)) => f == family,
        }
    }
    pub fn only_index(&self, family: &str) -> Option<u64> {
        match &self.only {
            Some((f, Some(i))) if f == family => Some(*i),
            _ => None,
        }
    }
}

pub struct Violation {
    pub sig: String,
    pub oracle: String,
    pub family: String,
    pub index: u64,
    pub detail: J,
    pub count: u64,
}

const SHARDS: usize = 256;

pub struct Run {
    pub opts: Opts,
    start: Instant,
    pub evaluations: AtomicU64,
    violations: Mutex<BTreeMap<String, Violation>>,
    counters: Mutex<BTreeMap<String, u64>>,
    samples: Mutex<BTreeMap<String, Vec<J>>>,
    distinct: Vec<Mutex<HashSet<u64>>>,
    inconclusive: Mutex<Vec<String>>,
    notes: Mutex<BTreeMap<String, J>>,
    exhaustive: Mutex<BTreeMap<String, bool>>,
    timeouts: Mutex<Vec<(String, u64, u64)>>,
}

#[derive(Default)]
pub struct Local {
    pub evals: u64,
    pub counters: BTreeMap<&'static str, u64>,
}

impl Local {
    #[inline]
    pub fn count(&mut self, k: &'static str) {
        *self.counters.entry(k).or_insert(0) += 1;
    }
    #[inline]
    pub fn add(&mut self, k: &'static str, n: u64) {
        *self.counters.entry(k).or_insert(0) += n;
    }
}

thread_local! {
    static LAST_PANIC: RefCell<Option<String>> = const { RefCell::new(None) };
    static QUIET: RefCell<bool> = const { RefCell::new(false) };
}

/// Install a panic hook that stays silent for panics raised inside `guard`
/// and records their message for the caller.
pub fn install_quiet_hook() {
    let prev = std::panic::take_hook();
    std::panic::set_hook(Box::new(move |info| {
        let msg = if let Some(s) = info.payload().downcast_ref::<&str>() {
            s.to_string()
        } else if let Some(s) = info.payload().downcast_ref::<String>() {
            s.clone()
        } else {
            "<non-string panic>".to_string()
        };
        let loc = info
            .location()
            .map(|l| format!("{}:{}", l.file(), l.line()))
            .unwrap_or_default();
        LAST_PANIC.with(|p| *p.borrow_mut() = Some(format!("{} @ {}", msg, loc)));
        if !QUIET.with(|q| *q.borrow()) {
            prev(info);
        }
    }));
}

/// Run `f`, converting a panic into `Err(message @ location)`.
pub fn guard<T>(f: impl FnOnce() -> T) -> Result<T, String> {
    let was = QUIET.with(|q| q.replace(true));
    let r = catch_unwind(AssertUnwindSafe(f));
    QUIET.with(|q| *q.borrow_mut() = was);
    match r {
        Ok(v) => Ok(v),
        Err(_) => Err(LAST_PANIC
            .with(|p| p.borrow_mut().take())
            .unwrap_or_else(|| "<panic>".into())),
    }
}

impl Run {
    pub fn new(opts: Opts) -> Run {
        Run {
            opts,
            start: Instant::now(),
            evaluations: AtomicU64::new(0),
            violations: Mutex::new(BTreeMap::new()),
            counters: Mutex::new(BTreeMap::new()),
            samples: Mutex::new(BTreeMap::new()),
            distinct: (0..SHARDS).map(|_| Mutex::new(HashSet::new())).collect(),
            inconclusive: Mutex::new(Vec::new()),
            notes: Mutex::new(BTreeMap::new()),
            exhaustive: Mutex::new(BTreeMap::new()),
            timeouts: Mutex::new(Vec::new()),
        }
    }

    pub fn violation(&self, sig: &str, oracle: &str, family: &str, index: u64, detail: J) {
        // signatures are single tokens (they are matched against known_findings.txt)
        let sig: String = sig
            .chars()
            .map(|c| if c.is_whitespace() { '_' } else { c })
            .collect();
        let sig = sig.as_str();
        let mut v = self.violations.lock().unwrap();
        match v.get_mut(sig) {
            Some(e) => e.count += 1,
            None => {
                v.insert(
                    sig.to_string(),
                    Violation {
                        sig: sig.to_string(),
                        oracle: oracle.to_string(),
                        family: family.to_string(),
                        index,
                        detail,
                        count: 1,
                    },
                );
            }
        }
    }

    pub fn violation_count(&self) -> usize {
        self.violations.lock().unwrap().len()
    }

    pub fn inconclusive(&self, reason: impl Into<String>) {
        self.inconclusive.lock().unwrap().push(reason.into());
    }

    pub fn note(&self, key: &str, v: J) {
        self.notes.lock().unwrap().insert(key.to_string(), v);
    }

    pub fn exhaustive(&self, family: &str, yes: bool) {
        self.exhaustive
            .lock()
            .unwrap()
            .insert(family.to_string(), yes);
    }

    pub fn counter(&self, key: &str, n: u64) {
        *self
            .counters
            .lock()
            .unwrap()
            .entry(key.to_string())
            .or_insert(0) += n;
    }

    pub fn counter_get(&self, key: &str) -> u64 {
        self.counters.lock().unwrap().get(key).copied().unwrap_or(0)
    }

    /// Record the canonical hash of a non-trivial case.
    #[inline]
    pub fn distinct(&self, hash: u64) {
        self.distinct[(hash as usize) % SHARDS]
            .lock()
            .unwrap()
            .insert(hash);
    }

    pub fn distinct_count(&self) -> u64 {
        self.distinct
            .iter()
            .map(|s| s.lock().unwrap().len() as u64)
            .sum()
    }

    /// Keep up to `max` sample cases per family.
    pub fn sample(&self, family: &str, max: usize, f: impl FnOnce() -> J) {
        let mut s = self.samples.lock().unwrap();
        let e = s.entry(family.to_string()).or_default();
        if e.len() < max {
            e.push(f());
        }
    }

    pub fn wants_sample(&self, family: &str, max: usize) -> bool {
        self.samples
            .lock()
            .unwrap()
            .get(family)
            .map_or(true, |v| v.len() < max)
    }

    pub fn merge(&self, l: Local) {
        self.evaluations.fetch_add(l.evals, Ordering::Relaxed);
        let mut c = self.counters.lock().unwrap();
        for (k, v) in l.counters {
            *c.entry(k.to_string()).or_insert(0) += v;
        }
    }

    /// Run `f(index, local)` for every index in `0..total` on `jobs` threads.
    /// Honours `--only family:index`.
    pub fn parallel<F>(&self, family: &str, total: u64, f: F)
    where
        F: Fn(u64, &mut Local) + Sync,
    {
        if !self.opts.wants(family) {
            return;
        }
        if let Some(i) = self.opts.only_index(family) {
            let mut l = Local::default();
            f(i, &mut l);
            self.merge(l);
            return;
        }
        let next = AtomicU64::new(0);
        // `--shard k/n`: this process takes the indices congruent to k modulo n
        // (the supervisor runs the n shards side by side; used for Miri, which
        // interprets on one core per process)
        let shard = self.shard();
        let chunk = (total / (self.opts.jobs as u64 * 64)).clamp(1, 4096);
        let jobs = self.opts.jobs.max(1).min(total.max(1) as usize);
        // worker stacks: what std gives a spawned thread in an optimised build,
        // more for the unoptimised / instrumented variants (DESIGN.md, C05)
        let stack = match self.opts.variant.as_str() {
            "dbg" => 8 << 20,
            "asan" | "tsan" => 64 << 20,
            _ => 2 << 20,
        };
        std::thread::scope(|s| {
            for _ in 0..jobs {
                let _ = std::thread::Builder::new().stack_size(stack).spawn_scoped(s, || {
                    let mut l = Local::default();
                    loop {
                        let lo = next.fetch_add(chunk, Ordering::Relaxed);
                        if lo >= total {
                            break;
                        }
                        let hi = (lo + chunk).min(total);
                        for i in lo..hi {
                            if shard.map_or(true, |(k, n)| i % n == k) {
                                f(i, &mut l);
                            }
                        }
                    }
                    self.merge(l);
                });
            }
        });
    }

    pub fn shard(&self) -> Option<(u64, u64)> {
        self.opts.extra.get("shard").and_then(|v| {
            let (k, n) = v.split_once('/')?;
            Some((k.parse().ok()?, n.parse::<u64>().ok()?.max(1)))
        })
    }

    pub fn is_child(&self) -> bool {
        self.opts.extra.get("mode").map(|m| m == "child").unwrap_or(false)
    }

    /// Run every index of a family in its own child process (the cases may
    /// kill the process: stack overflow, abort). In the child the closure runs
    /// inline for the single requested index. A child that dies from a signal
    /// is a violation of `death_oracle` with (family, index) as the witness; a
    /// child that exceeds `timeout_s` is recorded as inconclusive unless
    /// `timeout_is_violation`.
    pub fn isolated<F>(&self, family: &str, total: u64, timeout_s: u64, death_sig_prefix: &str, f: F)
    where
        F: Fn(u64, &mut Local) + Sync,
    {
        if !self.opts.wants(family) {
            return;
        }
        if self.is_child() {
            if let Some(i) = self.opts.only_index(family) {
                let mut l = Local::default();
                f(i, &mut l);
                self.merge(l);
            }
            return;
        }
        let indexes: Vec<u64> = match self.opts.only_index(family) {
            Some(i) => vec![i],
            None => (0..total).filter(|i| self.shard().map_or(true, |(k, n)| i % n == k)).collect(),
        };
        let next = AtomicU64::new(0);
        let exe = std::env::current_exe().expect("current_exe");
        let jobs = self.opts.jobs.max(1).min(indexes.len().max(1));
        std::thread::scope(|s| {
            for _ in 0..jobs {
                s.spawn(|| loop {
                    let k = next.fetch_add(1, Ordering::Relaxed) as usize;
                    if k >= indexes.len() {
                        break;
                    }
                    let i = indexes[k];
                    let dir = self
                        .opts
                        .out
                        .as_ref()
                        .and_then(|p| std::path::Path::new(p).parent().map(|d| d.to_path_buf()))
                        .filter(|d| d.is_dir())
                        .unwrap_or_else(std::env::temp_dir);
                    let out = dir.join(format!(
                        "wfverif-child-{}-{}-{}-{}.json",
                        std::process::id(),
                        self.opts.prop,
                        family,
                        i
                    ));
                    let mut cmd = std::process::Command::new(&exe);
                    cmd.arg(&self.opts.prop)
                        .args(["--tier", &self.opts.tier])
                        .args(["--seed", &self.opts.seed.to_string()])
                        .args(["--variant", &self.opts.variant])
                        .args(["--jobs", "1"])
                        .args(["--only", &format!("{}:{}", family, i)])
                        .args(["--mode", "child"])
                        .arg("--out")
                        .arg(&out)
                        .stdout(std::process::Stdio::null())
                        .stderr(std::process::Stdio::piped());
                    for (k, v) in &self.opts.extra {
                        if k != "mode" {
                            cmd.arg(format!("--{}", k)).arg(v);
                        }
                    }
                    let started = Instant::now();
                    let mut child = match cmd.spawn() {
                        Ok(c) => c,
                        Err(e) => {
                            self.inconclusive(format!("cannot spawn child: {}", e));
                            continue;
                        }
                    };
                    // drain stderr in a helper thread so the child cannot block
                    let mut stderr = child.stderr.take();
                    let drain = std::thread::spawn(move || {
                        let mut buf = String::new();
                        if let Some(s) = stderr.as_mut() {
                            use std::io::Read;
                            let mut bytes = Vec::new();
                            let _ = s.take(1 << 20).read_to_end(&mut bytes);
                            buf = String::from_utf8_lossy(&bytes).into_owned();
                        }
                        buf
                    });
                    let status = loop {
                        match child.try_wait() {
                            Ok(Some(st)) => break Some(st),
                            Ok(None) => {
                                if started.elapsed().as_secs() > timeout_s {
                                    let _ = child.kill();
                                    let _ = child.wait();
                                    break None;
                                }
                                std::thread::sleep(std::time::Duration::from_millis(5));
                            }
                            Err(_) => break None,
                        }
                    };
                    let err_text = drain.join().unwrap_or_default();
                    let tail: String = err_text.chars().rev().take(600).collect::<String>().chars().rev().collect();
                    match status {
                        None => {
                            self.counter("children_timed_out", 1);
                            self.child_timeout(family, i, timeout_s);
                        }
                        Some(st) => {
                            use std::os::unix::process::ExitStatusExt;
                            if let Some(sig) = st.signal() {
                                self.violation(
                                    &format!("{}/process-killed-by-signal-{}/{}", death_sig_prefix, sig, family),
                                    "process-survives",
                                    family,
                                    i,
                                    json!({"signal": sig, "stderr_tail": tail}),
                                );
                            } else if let Ok(text) = std::fs::read_to_string(&out) {
                                if let Ok(doc) = serde_json::from_str::<J>(&text) {
                                    self.absorb_child(&doc);
                                } else {
                                    self.inconclusive(format!("child {}:{} wrote no valid result", family, i));
                                }
                            } else {
                                self.inconclusive(format!(
                                    "child {}:{} exited with {:?} and no result: {}",
                                    family,
                                    i,
                                    st.code(),
                                    tail
                                ));
                            }
                        }
                    }
                    let _ = std::fs::remove_file(&out);
                    self.counter("children_run", 1);
                });
            }
        });
    }

    fn child_timeout(&self, family: &str, i: u64, timeout_s: u64) {
        self.timeouts
            .lock()
            .unwrap()
            .push((family.to_string(), i, timeout_s));
    }

    /// (family, index, budget) of children that exceeded their time budget
    pub fn take_timeouts(&self) -> Vec<(String, u64, u64)> {
        std::mem::take(&mut *self.timeouts.lock().unwrap())
    }

    fn absorb_child(&self, doc: &J) {
        self.evaluations
            .fetch_add(doc["evaluations"].as_u64().unwrap_or(0), Ordering::Relaxed);
        if let Some(c) = doc["counters"].as_object() {
            for (k, v) in c {
                self.counter(k, v.as_u64().unwrap_or(0));
            }
        }
        if let Some(vs) = doc["violations"].as_array() {
            for v in vs {
                self.violation(
                    v["sig"].as_str().unwrap_or("?"),
                    v["oracle"].as_str().unwrap_or("?"),
                    v["family"].as_str().unwrap_or("?"),
                    v["index"].as_u64().unwrap_or(0),
                    v["detail"].clone(),
                );
            }
        }
        if let Some(inc) = doc["inconclusive"].as_array() {
            for r in inc {
                self.inconclusive(r.as_str().unwrap_or("?").to_string());
            }
        }
        if let Some(n) = doc["notes"].as_object() {
            for (k, v) in n {
                self.note(k, v.clone());
            }
        }
        if let Some(s) = doc["samples"].as_object() {
            for (fam, arr) in s {
                if let Some(arr) = arr.as_array() {
                    for x in arr {
                        self.sample(fam, 4, || x.clone());
                    }
                }
            }
        }
        if let Some(h) = doc["distinct_hashes"].as_array() {
            for x in h {
                if let Some(x) = x.as_u64() {
                    self.distinct(x);
                }
            }
        }
    }

    pub fn finish(&self) -> J {
        let v = self.violations.lock().unwrap();
        let viol: Vec<J> = v
            .values()
            .map(|x| {
                json!({
                    "sig": x.sig,
                    "oracle": x.oracle,
                    "family": x.family,
                    "index": x.index,
                    "count": x.count,
                    "detail": x.detail,
                })
            })
            .collect();
        let samples: BTreeMap<String, Vec<J>> = self.samples.lock().unwrap().clone();
        let distinct_hashes: Vec<u64> = if self.is_child() {
            self.distinct
                .iter()
                .flat_map(|s| s.lock().unwrap().iter().copied().collect::<Vec<_>>())
                .take(100_000)
                .collect()
        } else {
            vec![]
        };
        json!({
            "distinct_hashes": distinct_hashes,
            "property": self.opts.prop,
            "tier": self.opts.tier,
            "seed": self.opts.seed,
            "variant": self.opts.variant,
            "jobs": self.opts.jobs,
            "evaluations": self.evaluations.load(Ordering::Relaxed),
            "distinct_nontrivial": self.distinct_count(),
            "counters": *self.counters.lock().unwrap(),
            "samples": samples,
            "violations": viol,
            "inconclusive": *self.inconclusive.lock().unwrap(),
            "notes": *self.notes.lock().unwrap(),
            "exhaustive": *self.exhaustive.lock().unwrap(),
            "wall_s": self.start.elapsed().as_secs_f64(),
        })
    }
}

pub fn hash_str(s: &str) -> u64 {
    crate::prng::fnv1a(s.as_bytes())
}
