//! Engine-side adapters: building a real `wirefilter::Scheme` /
//! `ExecutionContext` from the harness descriptions, harness-defined
//! functions that log their calls, and the harness list matcher.

use crate::ast::*;
use crate::refsem::{apply_sem, CallEvent, ListEvent, ListState};
use crate::rv::{res_from_engine, RRes, RType, RV};
use serde::ser::SerializeMap;
use serde::{Serialize, Serializer};
use std::cell::RefCell;
use std::collections::{BTreeMap, BTreeSet};
use wirefilter::{
    AlwaysList, ConcatFunction, ExecutionContext, FunctionArgs, LhsValue, ListDefinition,
    ListMatcher, NeverList, Scheme, SchemeBuilder, SimpleFunctionArgKind,
    SimpleFunctionDefinition, SimpleFunctionImpl, SimpleFunctionOptParam, SimpleFunctionParam,
    Type,
};

thread_local! {
    pub static CALL_LOG: RefCell<Vec<CallEvent>> = const { RefCell::new(Vec::new()) };
    pub static LIST_LOG: RefCell<Vec<ListEvent>> = const { RefCell::new(Vec::new()) };
    /// problems noticed by the adapters themselves (ill-formed values handed
    /// to a function or matcher)
    pub static MONITOR_ERRORS: RefCell<Vec<String>> = const { RefCell::new(Vec::new()) };
    /// when set to Some(site), the function registered under that site panics
    pub static BOOM_SITE: RefCell<Option<u32>> = const { RefCell::new(None) };
}

pub fn take_call_log() -> Vec<CallEvent> {
    CALL_LOG.with(|l| std::mem::take(&mut *l.borrow_mut()))
}
pub fn take_list_log() -> Vec<ListEvent> {
    LIST_LOG.with(|l| std::mem::take(&mut *l.borrow_mut()))
}
pub fn take_monitor_errors() -> Vec<String> {
    MONITOR_ERRORS.with(|l| std::mem::take(&mut *l.borrow_mut()))
}

pub const SEMS: [Sem; 13] = [
    Sem::Ident,
    Sem::Len,
    Sem::Upper,
    Sem::Add,
    Sem::First,
    Sem::CountTrue,
    Sem::DropOdd,
    Sem::BoolNot,
    Sem::Glue,
    Sem::Boom,
    Sem::Lift,
    Sem::Pick,
    Sem::Own,
];
pub const ALIASES_PER_SEM: u32 = 16;

pub fn sem_index(s: Sem) -> u32 {
    SEMS.iter().position(|x| *x == s).expect("simple sem") as u32
}

/// Site id of alias `alias` of a function with semantics `s`.
pub fn site_id(s: Sem, alias: u32) -> u32 {
    assert!(alias < ALIASES_PER_SEM);
    match s {
        Sem::Concat => 1000 + alias,
        Sem::Ctx => 2000 + alias,
        _ => sem_index(s) * ALIASES_PER_SEM + alias,
    }
}

fn simple_impl<'a, const ID: u32>(args: FunctionArgs<'_, 'a>) -> Option<LhsValue<'a>> {
    let sem = SEMS[(ID / ALIASES_PER_SEM) as usize];
    let mut rargs: Vec<RRes> = Vec::with_capacity(args.len());
    let declared = args.len();
    let mut seen = 0usize;
    for a in args {
        seen += 1;
        match res_from_engine(&a) {
            Ok(r) => rargs.push(r),
            Err(e) => {
                MONITOR_ERRORS.with(|m| {
                    m.borrow_mut()
                        .push(format!("site {}: ill-formed argument: {}", ID, e))
                });
                rargs.push(Err(RType::Bool));
            }
        }
    }
    if seen != declared {
        MONITOR_ERRORS.with(|m| {
            m.borrow_mut().push(format!(
                "site {}: argument iterator announced {} items but yielded {}",
                ID, declared, seen
            ))
        });
    }
    if sem == Sem::Boom && BOOM_SITE.with(|b| *b.borrow() == Some(ID)) {
        panic!("boom-site-{}", ID);
    }
    let result = apply_sem(sem, &rargs);
    CALL_LOG.with(|l| {
        l.borrow_mut().push(CallEvent {
            site: ID,
            args: rargs,
            result: result.clone(),
        })
    });
    result.map(|r| r.to_lhs_unwrap())
}

type FnPtr = for<'i, 'a> fn(FunctionArgs<'i, 'a>) -> Option<LhsValue<'a>>;

macro_rules! fn_table {
    ($($id:literal),*) => {
        fn fn_for(id: u32) -> FnPtr {
            match id {
                $($id => simple_impl::<$id>,)*
                _ => panic!("no function instance for site {}", id),
            }
        }
    };
}
fn_table!(0,1,2,3,4,5,6,7,8,9,10,11,12,13,14,15,16,17,18,19,20,21,22,23,24,25,26,27,28,29,30,31,32,33,34,35,36,37,38,39,40,41,42,43,44,45,46,47,48,49,50,51,52,53,54,55,56,57,58,59,60,61,62,63,64,65,66,67,68,69,70,71,72,73,74,75,76,77,78,79,80,81,82,83,84,85,86,87,88,89,90,91,92,93,94,95,96,97,98,99,100,101,102,103,104,105,106,107,108,109,110,111,112,113,114,115,116,117,118,119,120,121,122,123,124,125,126,127,128,129,130,131,132,133,134,135,136,137,138,139,140,141,142,143,144,145,146,147,148,149,150,151,152,153,154,155,156,157,158,159,160,161,162,163,164,165,166,167,168,169,170,171,172,173,174,175,176,177,178,179,180,181,182,183,184,185,186,187,188,189,190,191,192,193,194,195,196,197,198,199,200,201,202,203,204,205,206,207,208,209,210,211,212,213,214,215,216,217,218,219,220,221,222,223,224,225,226,227,228,229,230,231,232,233,234,235,236,237,238,239,240,241,242,243,244,245,246,247,248,249,250,251,252,253,254,255);

fn arg_kind(k: &ArgKind) -> SimpleFunctionArgKind {
    match k {
        ArgKind::Literal => SimpleFunctionArgKind::Literal,
        ArgKind::Field => SimpleFunctionArgKind::Field,
        ArgKind::Both => SimpleFunctionArgKind::Both,
    }
}

pub fn simple_definition(f: &FuncDesc) -> SimpleFunctionDefinition {
    SimpleFunctionDefinition {
        params: f
            .params
            .iter()
            .map(|(k, t)| SimpleFunctionParam {
                arg_kind: arg_kind(k),
                val_type: t.to_engine(),
            })
            .collect(),
        opt_params: f
            .opts
            .iter()
            .map(|(k, d)| SimpleFunctionOptParam {
                arg_kind: arg_kind(k),
                default_value: d.to_lhs_unwrap(),
            })
            .collect(),
        return_type: f.ret.to_engine(),
        implementation: SimpleFunctionImpl::new(fn_for(f.site)),
    }
}

// ---------------------------------------------------------------------------
// harness list

#[derive(Debug)]
pub struct HarnessList;

#[derive(Clone, Debug, PartialEq, Eq)]
pub struct HarnessMatcher {
    /// the type this matcher was created for, when known (deserialised)
    pub sets: BTreeMap<String, BTreeSet<RV>>,
    /// counts how often `clear` ran (not part of equality-relevant state in
    /// the engine's sense, but kept out of `sets` comparisons by construction)
    pub generation: u32,
}

impl Serialize for HarnessMatcher {
    fn serialize<S: Serializer>(&self, ser: S) -> Result<S::Ok, S::Error> {
        let mut m = ser.serialize_map(Some(self.sets.len()))?;
        for (k, vs) in &self.sets {
            let arr: Vec<serde_json::Value> = vs.iter().map(|v| v.to_json()).collect();
            m.serialize_entry(k, &arr)?;
        }
        m.end()
    }
}

pub fn rv_from_json(t: &RType, j: &serde_json::Value) -> Option<RV> {
    use serde_json::Value as J;
    Some(match (t, j) {
        (RType::Int, J::Number(n)) => RV::Int(n.as_i64()?),
        (RType::Ip, J::String(s)) => RV::Ip(s.parse().ok()?),
        (RType::Bytes, J::String(s)) => RV::Bytes(s.as_bytes().to_vec()),
        (RType::Bytes, J::Array(a)) => RV::Bytes(
            a.iter()
                .map(|x| x.as_u64().and_then(|v| u8::try_from(v).ok()))
                .collect::<Option<Vec<u8>>>()?,
        ),
        _ => return None,
    })
}

impl ListDefinition for HarnessList {
    fn deserialize_matcher<'de>(
        &self,
        ty: Type,
        deserializer: &mut dyn erased_serde::Deserializer<'de>,
    ) -> Result<Box<dyn ListMatcher>, erased_serde::Error> {
        use serde::de::Error;
        let v: serde_json::Value = erased_serde::deserialize(deserializer)?;
        let t = RType::from_engine(ty);
        let obj = v
            .as_object()
            .ok_or_else(|| erased_serde::Error::custom("harness matcher: expected object"))?;
        let mut sets = BTreeMap::new();
        for (k, arr) in obj {
            let arr = arr
                .as_array()
                .ok_or_else(|| erased_serde::Error::custom("harness matcher: expected array"))?;
            let mut s = BTreeSet::new();
            for x in arr {
                s.insert(
                    rv_from_json(&t, x)
                        .ok_or_else(|| erased_serde::Error::custom("harness matcher: bad member"))?,
                );
            }
            sets.insert(k.clone(), s);
        }
        Ok(Box::new(HarnessMatcher {
            sets,
            generation: 0,
        }))
    }

    fn new_matcher(&self) -> Box<dyn ListMatcher> {
        Box::new(HarnessMatcher {
            sets: BTreeMap::new(),
            generation: 0,
        })
    }
}

impl ListMatcher for HarnessMatcher {
    fn match_value(&self, list_name: &str, val: &LhsValue<'_>) -> bool {
        match RV::from_lhs(val) {
            Ok(v) => {
                let hit = self.sets.get(list_name).map_or(false, |s| s.contains(&v));
                LIST_LOG.with(|l| {
                    l.borrow_mut().push(ListEvent {
                        name: list_name.to_string(),
                        value: v,
                    })
                });
                hit
            }
            Err(e) => {
                MONITOR_ERRORS.with(|m| m.borrow_mut().push(format!("matcher: {}", e)));
                false
            }
        }
    }

    fn clear(&mut self) {
        self.sets.clear();
        self.generation = 0;
    }
}

// ---------------------------------------------------------------------------
// scheme / context construction

pub fn build_scheme_builder(env: &Env) -> SchemeBuilder {
    let mut b = SchemeBuilder::new();
    for f in &env.fields {
        let r = if f.optional {
            b.add_optional_field(&f.name, f.ty.to_engine())
        } else {
            b.add_field(&f.name, f.ty.to_engine())
        };
        r.expect("harness scheme: duplicate field");
    }
    for f in &env.funcs {
        match f.sem {
            Sem::Concat => b.add_function(&f.name, ConcatFunction::new()),
            Sem::Ctx => b.add_function(&f.name, crate::ctxfn::CtxFn { site: f.site }),
            _ => b.add_function(&f.name, simple_definition(f)),
        }
        .expect("harness scheme: duplicate function");
    }
    for (t, kind) in &env.lists {
        match kind {
            ListKind::Harness => b.add_list(t.to_engine(), HarnessList),
            ListKind::Always => b.add_list(t.to_engine(), AlwaysList {}),
            ListKind::Never => b.add_list(t.to_engine(), NeverList {}),
        }
        .expect("harness scheme: duplicate list");
    }
    b.set_nil_not_equal_behavior(env.nil_ne);
    b
}

/// The same scheme, built by a builder that has also REFUSED one redefinition of
/// every registered field, function and list (same kind and other kind). A
/// refused registration leaves the builder unchanged, so the scheme must behave
/// exactly like `build_scheme(env)`.
pub fn build_scheme_after_refusals(env: &Env) -> Result<Scheme, String> {
    let mut b = build_scheme_builder(env);
    for f in &env.fields {
        if b.add_field(&f.name, wirefilter::Type::Bool).is_ok() || b.add_optional_field(&f.name, f.ty.to_engine()).is_ok() {
            return Err(format!("field {} could be registered twice", f.name));
        }
        if b.add_function(&f.name, ConcatFunction::new()).is_ok() {
            return Err(format!("function registered over field {}", f.name));
        }
    }
    for f in &env.funcs {
        if b.add_function(&f.name, ConcatFunction::new()).is_ok() || b.add_field(&f.name, wirefilter::Type::Int).is_ok() {
            return Err(format!("name {} could be registered twice", f.name));
        }
    }
    for (t, _) in &env.lists {
        if b.add_list(t.to_engine(), HarnessList).is_ok()
            || b.add_list(t.to_engine(), AlwaysList {}).is_ok()
            || b.add_list(t.to_engine(), NeverList {}).is_ok()
        {
            return Err(format!("a second list for {} could be registered", t.short()));
        }
    }
    Ok(b.build())
}

pub fn build_scheme(env: &Env) -> Scheme {
    build_scheme_builder(env).build()
}

pub fn set_lists(ctx: &mut ExecutionContext<'_>, scheme: &Scheme, env: &Env, lists: &ListState) {
    for (t, kind) in &env.lists {
        if *kind != ListKind::Harness {
            continue;
        }
        let list = scheme.get_list(&t.to_engine()).expect("list registered");
        let m = ctx.get_list_matcher_mut(list);
        let hm = m
            .as_any_mut()
            .downcast_mut::<HarnessMatcher>()
            .expect("harness matcher");
        hm.sets.clear();
        for ((lt, name), members) in &lists.sets {
            if lt == t {
                hm.sets.insert(name.clone(), members.clone());
            }
        }
    }
}

pub fn build_ctx<'s>(
    scheme: &'s Scheme,
    env: &Env,
    vals: &[Option<RV>],
    lists: &ListState,
) -> ExecutionContext<'static> {
    let mut ctx = ExecutionContext::new(scheme);
    for (i, v) in vals.iter().enumerate() {
        if let Some(v) = v {
            let field = scheme.get_field(&env.fields[i].name).expect("field");
            ctx.set_field_value(field, v.to_lhs_unwrap())
                .expect("harness context: well-typed value");
        }
    }
    set_lists(&mut ctx, scheme, env, lists);
    ctx
}
