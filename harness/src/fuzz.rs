//! Coverage-guided workloads (thorough tier of C04, C05, C14, C15).
//!
//! libFuzzer is used purely as a *workload generator*: the deciding step is the
//! oracle below, which is evaluated on every input the fuzzer produces. The
//! oracles here are the self-contained clauses of the properties, i.e. those
//! that are defined for ARBITRARY bytes (no reference model of the input is
//! needed): "never panics", "every error designates the input", "accepted
//! filters run", "an accepted document round-trips".
//!
//! `one(target, data)` returns the first violated clause as (signature, detail).
//! The fuzz targets abort on `Some`, which makes libFuzzer keep the input; the
//! supervisor then replays the kept input through `replay` in the ordinary
//! harness binary, which reports it like any other violation.

use crate::gen::*;
use crate::printer::{print_filter, print_value_expr};
use crate::prng::Rng;
use crate::props::common::Eng;
use crate::props::{c05, c14, c15};
use crate::refsem::ListState;
use crate::report::{guard, Run};
use crate::rv::{RType, RV};
use serde::de::DeserializeSeed;
use serde_json::{json, Value as J};
use std::cell::OnceCell;
use wirefilter::{ExecutionContext, GetType, Scheme, Type};

pub const TARGETS: [&str; 4] = ["c04", "c05", "c14", "c15"];

struct State {
    eng: Eng,
    ctxs: Vec<ExecutionContext<'static>>,
}

thread_local! {
    static STATE: OnceCell<&'static State> = const { OnceCell::new() };
}

fn state() -> &'static State {
    STATE.with(|s| {
        *s.get_or_init(|| {
            let eng = Eng::new(rich_env(0));
            let mut ctxs = Vec::new();
            for k in 0..3u64 {
                let mut r = Rng::derive(7, "fuzz-ctx", k);
                let vals = if k == 0 {
                    eng.env
                        .fields
                        .iter()
                        .map(|f| if f.optional { None } else { Some(gen_value(&mut r, &f.ty)) })
                        .collect()
                } else {
                    gen_ctx(&mut r, &eng.env)
                };
                let lists = gen_lists(&mut r, &eng.env);
                ctxs.push(eng.ctx(&vals, &lists));
            }
            // one state per thread, alive for the whole process
            Box::leak(Box::new(State { eng, ctxs }))
        })
    })
}

fn first_line(s: &str) -> String {
    crate::props::common::first_line(s)
}

fn show(data: &[u8]) -> J {
    json!({"len": data.len(), "text": String::from_utf8_lossy(&data[..data.len().min(400)])})
}

pub fn one(target: &str, data: &[u8]) -> Option<(String, J)> {
    match target {
        "c04" => c04_one(data),
        "c05" => c05_one(data),
        "c14" => c14_one(data),
        "c15" => c15_one(data),
        _ => None,
    }
}

/// C05: any text gives an AST or a well-formed error, as a filter and as a value expression.
fn c05_one(data: &[u8]) -> Option<(String, J)> {
    let st = state();
    let text = String::from_utf8_lossy(data);
    let input: &str = &text;
    for kind in 0..2u8 {
        let res = guard(|| -> Result<(), (String, (usize, usize, usize, String))> {
            let r = if kind == 0 {
                st.eng.scheme.parse(input).map(|_| ())
            } else {
                st.eng.scheme.parse_value(input).map(|_| ())
            };
            r.map_err(|e| {
                let s = e.verif_span();
                (e.to_string(), (s.0, s.1, s.2, s.3.to_string()))
            })
        });
        match res {
            Err(p) => {
                return Some((format!("C05/parse-panics/{}", first_line(&p)), json!({"input": show(data), "kind": kind, "panic": p})));
            }
            Ok(Ok(())) => {}
            Ok(Err((rendered, (line_no, start, len, line)))) => {
                if let Some(problem) = c05::check_error(input, &rendered, line_no, start, len, &line) {
                    return Some((
                        format!("C05/ill-formed-error/{}", problem.0),
                        json!({"input": show(data), "kind": kind, "problem": problem.1, "line_number": line_no, "span_start": start, "span_len": len}),
                    ));
                }
            }
        }
    }
    None
}

/// C04 (consequence clauses): whatever the parser accepts compiles and runs without
/// panicking; an accepted value expression yields a value of its static type or an
/// absence carrying that type.
fn c04_one(data: &[u8]) -> Option<(String, J)> {
    let st = state();
    let text = String::from_utf8_lossy(data);
    let input: &str = &text;
    if let Ok(Ok(ast)) = guard(|| st.eng.scheme.parse(input)) {
        let filter = match guard(|| ast.compile()) {
            Ok(f) => f,
            Err(p) => return Some((format!("C04/accepted-filter-panics-in-compile/{}", first_line(&p)), json!({"input": show(data), "panic": p}))),
        };
        for ctx in &st.ctxs {
            match guard(|| filter.execute(ctx).is_ok()) {
                Ok(true) => {}
                Ok(false) => return Some(("C04/accepted-filter-scheme-mismatch-on-own-scheme".into(), json!({"input": show(data)}))),
                Err(p) => return Some((format!("C04/accepted-filter-panics-in-execute/{}", first_line(&p)), json!({"input": show(data), "panic": p}))),
            }
        }
    }
    if let Ok(Ok(ast)) = guard(|| st.eng.scheme.parse_value(input)) {
        let static_ty = ast.get_type();
        let fv = match guard(|| ast.compile()) {
            Ok(f) => f,
            Err(p) => return Some((format!("C04/accepted-value-panics-in-compile/{}", first_line(&p)), json!({"input": show(data), "panic": p}))),
        };
        for ctx in &st.ctxs {
            let r = guard(|| match fv.execute(ctx) {
                Ok(Ok(v)) => {
                    let t = v.get_type();
                    let deep = RV::from_lhs(&v).err();
                    Ok((t, deep))
                }
                Ok(Err(t)) => Ok((t, None)),
                Err(_) => Err(()),
            });
            match r {
                Err(p) => return Some((format!("C04/accepted-value-panics-in-execute/{}", first_line(&p)), json!({"input": show(data), "panic": p}))),
                Ok(Err(())) => return Some(("C04/accepted-value-scheme-mismatch-on-own-scheme".into(), json!({"input": show(data)}))),
                Ok(Ok((t, deep))) => {
                    if t != static_ty {
                        return Some((
                            "C04/value-not-of-static-type".into(),
                            json!({"input": show(data), "static": format!("{:?}", static_ty), "dynamic": format!("{:?}", t)}),
                        ));
                    }
                    if let Some(d) = deep {
                        return Some(("C04/value-not-deeply-typed".into(), json!({"input": show(data), "problem": d})));
                    }
                }
            }
        }
    }
    None
}

fn load_slice<'a>(scheme: &Scheme, data: &'a [u8]) -> Result<Result<ExecutionContext<'a>, String>, String> {
    guard(|| {
        let mut ctx = ExecutionContext::<()>::new(scheme);
        let mut de = serde_json::Deserializer::from_slice(data);
        match (&mut ctx).deserialize(&mut de) {
            Ok(()) => Ok(ctx),
            Err(e) => {
                let inv = c14::invariant_only(scheme, &ctx);
                Err(match inv {
                    Ok(()) => e.to_string(),
                    Err(i) => format!("INVARIANT-AFTER-REFUSAL {}", i),
                })
            }
        }
    })
}

/// C14: any bytes give a context or an error, never a panic; whatever is accepted
/// satisfies the deep type invariant, serialises, and reads back as an equal context
/// with a stable serialisation.
fn c14_one(data: &[u8]) -> Option<(String, J)> {
    let st = state();
    let scheme: &Scheme = &st.eng.scheme;
    let ctx = match load_slice(scheme, data) {
        Err(p) => return Some((format!("C14/deserialize-panics/{}", first_line(&p)), json!({"input": show(data), "panic": p}))),
        Ok(Err(e)) => {
            if e.starts_with("INVARIANT-AFTER-REFUSAL") {
                return Some(("C14/refused-document-leaves-ill-typed-context".into(), json!({"input": show(data), "problem": e})));
            }
            return None;
        }
        Ok(Ok(c)) => c,
    };
    if let Err(e) = c14::invariant_only(scheme, &ctx) {
        return Some(("C14/accepted-document-breaks-type-invariant".into(), json!({"input": show(data), "problem": e})));
    }
    let text = match guard(|| serde_json::to_string(&ctx).map_err(|e| e.to_string())) {
        Ok(Ok(t)) => t,
        other => return Some(("C14/accepted-context-does-not-serialise".into(), json!({"input": show(data), "outcome": format!("{:?}", other)}))),
    };
    let ctx2 = match load_slice(scheme, text.as_bytes()) {
        Ok(Ok(c)) => c,
        other => {
            return Some((
                "C14/own-serialisation-not-read-back".into(),
                json!({"input": show(data), "serialised": text.chars().take(600).collect::<String>(), "outcome": format!("{:?}", other.map(|r| r.map(|_| "ctx")))}),
            ))
        }
    };
    if ctx2 != ctx {
        return Some(("C14/read-back-context-differs".into(), json!({"input": show(data), "serialised": text.chars().take(600).collect::<String>()})));
    }
    match guard(|| serde_json::to_string(&ctx2).map_err(|e| e.to_string())) {
        Ok(Ok(t2)) if t2 == text => {}
        other => {
            return Some((
                "C14/serialisation-not-stable".into(),
                json!({"input": show(data), "first": text.chars().take(600).collect::<String>(), "second": format!("{:?}", other).chars().take(600).collect::<String>()}),
            ))
        }
    }
    None
}

/// C15: any bytes as a type descriptor / scheme document: never a panic; an accepted
/// type survives JSON and the packed form; an accepted scheme re-serialises to a
/// document that reads back as the same field list.
fn c15_one(data: &[u8]) -> Option<(String, J)> {
    match guard(|| serde_json::from_slice::<Type>(data).map_err(|e| e.to_string())) {
        Err(p) => return Some((format!("C15/type-deserialize-panics/{}", first_line(&p)), json!({"input": show(data), "panic": p}))),
        Ok(Err(_)) => {}
        Ok(Ok(t)) => {
            let r = guard(|| {
                let text = serde_json::to_string(&t).map_err(|e| e.to_string())?;
                let back: Type = serde_json::from_str(&text).map_err(|e| format!("own JSON refused: {} ({})", e, text))?;
                if back != t {
                    return Err(format!("JSON round trip changes the type: {:?} -> {:?}", t, back));
                }
                let rt = RType::from_engine(t);
                if rt.to_engine() != t {
                    return Err(format!("structural walk changes the type {:?}", t));
                }
                if serde_json::from_str::<J>(&text).ok() != Some(rt.to_json()) {
                    return Err(format!("JSON form is not the documented one: {}", text));
                }
                // `Type` itself can hold 33 layers (one above a full packed form); the packed
                // form is only defined up to 32 (DESIGN 4-C15)
                let mut layers = 0;
                let mut cur = &rt;
                while let RType::Array(e) | RType::Map(e) = cur {
                    layers += 1;
                    cur = e;
                }
                if layers <= 32 {
                    let c = wirefilter::CompoundType::from(t);
                    let t2: Type = c.into();
                    if t2 != t {
                        return Err(format!("packed form changes the type: {:?} -> {:?}", t, t2));
                    }
                }
                Ok(())
            });
            match r {
                Err(p) => return Some((format!("C15/accepted-type-panics/{}", first_line(&p)), json!({"input": show(data), "panic": p}))),
                Ok(Err(e)) => return Some(("C15/accepted-type-does-not-round-trip".into(), json!({"input": show(data), "problem": e}))),
                Ok(Ok(())) => {}
            }
        }
    }
    match guard(|| serde_json::from_slice::<Scheme>(data).map_err(|e| e.to_string())) {
        Err(p) => Some((format!("C15/scheme-deserialize-panics/{}", first_line(&p)), json!({"input": show(data), "panic": p}))),
        Ok(Err(_)) => None,
        Ok(Ok(s)) => {
            let r = guard(|| {
                let desc = c15::scheme_desc(&s);
                let mut seen = std::collections::BTreeSet::new();
                for (n, _, _) in &desc {
                    if !seen.insert(n.clone()) {
                        return Err(format!("field {:?} registered twice", n));
                    }
                }
                let text = serde_json::to_string(&s).map_err(|e| e.to_string())?;
                let back: Scheme = serde_json::from_str(&text).map_err(|e| format!("own JSON refused: {} ({})", e, text.chars().take(300).collect::<String>()))?;
                if c15::scheme_desc(&back) != desc {
                    return Err("scheme round trip changes names, order, types or optionality".to_string());
                }
                for (n, t, o) in &desc {
                    let f = s.get_field(n).map_err(|_| format!("field {:?} not found by name", n))?;
                    if RType::from_engine(f.get_type()) != *t || f.optional() != *o {
                        return Err(format!("lookup of {:?} disagrees with fields()", n));
                    }
                }
                Ok(())
            });
            match r {
                Err(p) => Some((format!("C15/accepted-scheme-panics/{}", first_line(&p)), json!({"input": show(data), "panic": p}))),
                Ok(Err(e)) => Some(("C15/accepted-scheme-does-not-round-trip".into(), json!({"input": show(data), "problem": e}))),
                Ok(Ok(())) => None,
            }
        }
    }
}

/// Replays one kept fuzzer input in the ordinary harness (`--fuzz-file`, `--fuzz-target`).
pub fn replay(run: &Run, target: &str, path: &str) {
    let data = match std::fs::read(path) {
        Ok(d) => d,
        Err(e) => {
            run.inconclusive(format!("cannot read fuzzer input {}: {}", path, e));
            return;
        }
    };
    run.counter("fuzz_inputs_replayed", 1);
    let name = std::path::Path::new(path).file_name().map(|s| s.to_string_lossy().into_owned()).unwrap_or_default();
    if let Some((sig, mut detail)) = one(target, &data) {
        detail["fuzz_input_file"] = json!(name);
        detail["bytes_hex"] = json!(data.iter().take(300).map(|b| format!("{:02x}", b)).collect::<String>());
        run.violation(&sig, "fuzz-oracle", "fuzz", 0, detail);
    } else {
        run.counter("fuzz_inputs_not_reproduced", 1);
    }
}

/// Writes a seed corpus for one target: generated valid inputs of the property's own
/// generators, so that the fuzzer starts deep inside the accepted language.
pub fn write_corpus(run: &Run, target: &str, dir: &str) {
    let _ = std::fs::create_dir_all(dir);
    let seed = run.opts.seed;
    let eng = Eng::new(rich_env(0));
    let env = &eng.env;
    let mut n = 0u64;
    let mut put = |bytes: &[u8]| {
        let p = format!("{}/seed-{:05}", dir, n);
        if std::fs::write(&p, bytes).is_ok() {
            n += 1;
        }
    };
    match target {
        "c04" | "c05" => {
            for i in 0..1500u64 {
                let mut cfg = GenCfg::full();
                cfg.regex = true;
                cfg.max_depth = 1 + (i % 4) as usize;
                let mut g = FilterGen::new(env, cfg, Rng::derive(seed, "fuzz-gen", i));
                if i % 5 == 0 {
                    if let Some(p) = g.value_expr() {
                        put(print_value_expr(env, &p, Some(Rng::derive(seed, "fuzz-p", i))).as_bytes());
                    }
                } else {
                    let e = g.filter();
                    put(print_filter(env, &e, Some(Rng::derive(seed, "fuzz-p", i))).as_bytes());
                }
            }
            for t in c05::TOKENS {
                put(t.as_bytes());
            }
        }
        "c14" => {
            for i in 0..600u64 {
                let mut r = Rng::derive(seed, "fuzz-ctx-corpus", i);
                let vals = gen_ctx(&mut r, env);
                let lists: ListState = gen_lists(&mut r, env);
                let doc = c14::expected_doc(env, &vals, &lists);
                put(c14::doc_to_text(&doc).as_bytes());
            }
            put(b"{}");
            put(b"{\"$lists\":[]}");
        }
        "c15" => {
            for i in 0..400u64 {
                let mut r = Rng::derive(seed, "fuzz-type-corpus", i);
                let prim = ["Bool", "Bytes", "Int", "Ip"][r.below(4)];
                let layers: Vec<bool> = (0..r.below(36)).map(|_| r.bool()).collect();
                put(c15::type_json_text(prim, &layers).as_bytes());
            }
            for i in 0..300u64 {
                let mut r = Rng::derive(seed, "fuzz-scheme-corpus", i);
                let mut o = String::from("{");
                for k in 0..r.below(8) {
                    if k > 0 {
                        o.push(',');
                    }
                    let prim = ["Bool", "Bytes", "Int", "Ip"][r.below(4)];
                    let layers: Vec<bool> = (0..r.below(4)).map(|_| r.bool()).collect();
                    o.push_str(&format!(
                        "{}:{{\"type\":{},\"optional\":{}}}",
                        serde_json::to_string(&c15::name_pool(&mut r)).unwrap(),
                        c15::type_json_text(prim, &layers),
                        r.bool()
                    ));
                }
                o.push('}');
                put(o.as_bytes());
            }
        }
        _ => {}
    }
    run.counter("fuzz_seed_inputs_written", n);
    // every seed input must itself satisfy the oracle (the monitor is silent on what it generates)
    let mut checked = 0u64;
    if let Ok(rd) = std::fs::read_dir(dir) {
        for e in rd.flatten() {
            if let Ok(data) = std::fs::read(e.path()) {
                checked += 1;
                if let Some((sig, detail)) = one(target, &data) {
                    run.violation(&sig, "fuzz-oracle", "fuzz-seed-corpus", checked, detail);
                }
            }
        }
    }
    run.counter("fuzz_seed_inputs_checked", checked);
}
