//! Renders the harness AST to filter text. With a PRNG it picks, per
//! occurrence, an operator alias, a literal spelling and the whitespace
//! between tokens; without one it prints a fixed canonical layout.

use crate::ast::*;
use crate::prng::Rng;
use std::net::{IpAddr, Ipv6Addr};

pub struct Printer<'a> {
    pub env: &'a Env,
    pub rng: Option<Rng>,
    /// when false only the first alias / decimal / canonical IP spelling is used
    pub vary_literals: bool,
    /// allow the `0x` spelling for integer literals in call-argument position
    pub hex_in_args: bool,
    in_arg: bool,
    /// explicit alias choices (0 = word, 1 = symbol) consumed in order; when
    /// exhausted or absent the PRNG / canonical choice applies
    pub alias_script: Option<Vec<u8>>,
    pub alias_points: usize,
    pub out: String,
}

const WS: [&str; 3] = [" ", "\n", "\r"];

impl<'a> Printer<'a> {
    pub fn canonical(env: &'a Env) -> Self {
        Printer {
            env,
            rng: None,
            vary_literals: false,
            hex_in_args: true,
            in_arg: false,
            alias_script: None,
            alias_points: 0,
            out: String::new(),
        }
    }
    pub fn random(env: &'a Env, rng: Rng) -> Self {
        Printer {
            env,
            rng: Some(rng),
            vary_literals: true,
            hex_in_args: true,
            in_arg: false,
            alias_script: None,
            alias_points: 0,
            out: String::new(),
        }
    }

    fn pick(&mut self, n: usize) -> usize {
        match &mut self.rng {
            Some(r) => r.below(n),
            None => 0,
        }
    }

    /// optional whitespace
    fn ws0(&mut self) {
        if self.rng.is_some() {
            let n = match self.pick(6) {
                0..=2 => 0,
                3..=4 => 1,
                _ => 2,
            };
            for _ in 0..n {
                let w = WS[self.pick(3)];
                self.out.push_str(w);
            }
        }
    }

    /// required whitespace
    fn ws1(&mut self) {
        if self.rng.is_some() {
            let n = 1 + self.pick(2);
            for _ in 0..n {
                let w = WS[self.pick(3)];
                self.out.push_str(w);
            }
        } else {
            self.out.push(' ');
        }
    }

    /// whitespace around a token that is symbolic (may touch its neighbours)
    /// in canonical mode we still print one space for readability
    fn ws_sym(&mut self) {
        if self.rng.is_some() {
            self.ws0()
        } else {
            self.out.push(' ')
        }
    }

    fn alias(&mut self, words: &[&'static str]) -> &'static str {
        words[self.pick(words.len())]
    }

    pub fn int(&mut self, v: i64) {
        let form = if self.vary_literals && v >= 0 {
            self.pick(4)
        } else {
            0
        };
        match form {
            2 if self.in_arg && !self.hex_in_args => self.out.push_str(&v.to_string()),
            2 => self.out.push_str(&format!("0x{:x}", v)),
            3 => self.out.push_str(&format!("0{:o}", v)),
            _ => self.out.push_str(&v.to_string()),
        }
    }

    pub fn ip(&mut self, a: &IpAddr) {
        let form = if self.vary_literals { self.pick(3) } else { 0 };
        match (a, form) {
            (IpAddr::V6(v6), 1) => self.out.push_str(&expanded_v6(v6, false)),
            (IpAddr::V6(v6), 2) => self.out.push_str(&expanded_v6(v6, true)),
            _ => self.out.push_str(&a.to_string()),
        }
    }

    pub fn bytes(&mut self, b: &BytesLit) {
        match b.form {
            BytesForm::Quoted => {
                self.out.push('"');
                let s = std::str::from_utf8(&b.data).ok();
                match s {
                    Some(s) if !self.vary_literals || self.pick(2) == 0 => {
                        // literal characters where legal, escapes for `"`/`\`
                        for ch in s.chars() {
                            match ch {
                                '"' => self.out.push_str("\\\""),
                                '\\' => self.out.push_str("\\\\"),
                                c => self.out.push(c),
                            }
                        }
                    }
                    _ => {
                        for &c in &b.data {
                            let printable = (0x20..0x7f).contains(&c) && c != b'"' && c != b'\\';
                            if printable && (!self.vary_literals || self.pick(4) != 0) {
                                self.out.push(c as char);
                            } else if c == b'"' && self.pick(2) == 0 {
                                self.out.push_str("\\\"");
                            } else if c == b'\\' && self.pick(2) == 0 {
                                self.out.push_str("\\\\");
                            } else {
                                match self.pick(3) {
                                    0 => self.out.push_str(&format!("\\x{:02x}", c)),
                                    1 => self.out.push_str(&format!("\\x{:02X}", c)),
                                    _ => self.out.push_str(&format!("\\{:03o}", c)),
                                }
                            }
                        }
                    }
                }
                self.out.push('"');
            }
            BytesForm::Raw(n) => {
                self.out.push('r');
                for _ in 0..n {
                    self.out.push('#');
                }
                self.out.push('"');
                self.out
                    .push_str(std::str::from_utf8(&b.data).expect("raw string body is UTF-8"));
                self.out.push('"');
                for _ in 0..n {
                    self.out.push('#');
                }
            }
            BytesForm::Hex(sep) => {
                assert!(b.data.len() >= 2, "hex-pair literal needs two bytes");
                let upper = self.vary_literals && self.pick(2) == 1;
                for (i, c) in b.data.iter().enumerate() {
                    if i > 0 {
                        self.out.push(sep as char);
                    }
                    if upper {
                        self.out.push_str(&format!("{:02X}", c));
                    } else {
                        self.out.push_str(&format!("{:02x}", c));
                    }
                }
            }
        }
    }

    pub fn lit(&mut self, l: &Lit) {
        match l {
            Lit::Int(i) => self.int(*i),
            Lit::Ip(a) => self.ip(a),
            Lit::Bytes(b) => self.bytes(b),
        }
    }

    pub fn regex(&mut self, r: &RegexLit) {
        match r.raw {
            Some(n) => {
                self.out.push('r');
                for _ in 0..n {
                    self.out.push('#');
                }
                self.out.push('"');
                self.out.push_str(&r.pattern);
                self.out.push('"');
                for _ in 0..n {
                    self.out.push('#');
                }
            }
            None => {
                self.out.push('"');
                self.out.push_str(&regex_quote(&r.pattern));
                self.out.push('"');
            }
        }
    }

    fn set(&mut self, s: &SetLit) {
        self.out.push('{');
        self.ws0();
        let n = s.len();
        for i in 0..n {
            if i > 0 {
                self.ws1();
            }
            match s {
                SetLit::Int(v) => match &v[i] {
                    IntItem::One(a) => self.int(*a),
                    IntItem::Range(a, b) => {
                        self.int(*a);
                        self.out.push_str("..");
                        self.int(*b);
                    }
                },
                SetLit::Ip(v) => match &v[i] {
                    IpItem::Addr(a) => self.ip(a),
                    IpItem::Cidr(a, l) => {
                        self.ip(a);
                        self.out.push_str(&format!("/{}", l));
                    }
                    IpItem::Range(a, b) => {
                        self.ip(a);
                        self.out.push_str("..");
                        self.ip(b);
                    }
                },
                SetLit::Bytes(v) => self.bytes(&v[i]),
            }
        }
        self.ws0();
        self.out.push('}');
    }

    pub fn path(&mut self, p: &Path) {
        match &p.base {
            Base::Field(f) => self.out.push_str(&self.env.fields[*f].name),
            Base::Call(c) => self.call(c),
        }
        for i in &p.idx {
            self.out.push('[');
            self.ws0();
            match i {
                Idx::Arr(n) => {
                    let v = *n as i64;
                    self.int(v)
                }
                Idx::Key(k) => self.bytes(&BytesLit::quoted(k.as_bytes().to_vec())),
                Idx::Each => self.out.push('*'),
            }
            self.ws0();
            self.out.push(']');
        }
    }

    pub fn call(&mut self, c: &Call) {
        self.out.push_str(&self.env.funcs[c.func].name);
        self.ws0();
        self.out.push('(');
        self.ws0();
        for (i, a) in c.args.iter().enumerate() {
            if i > 0 {
                self.ws0();
                self.out.push(',');
                self.ws0();
            }
            match a {
                Arg::Path(p) => self.path(p),
                Arg::Lit(l) => {
                    self.in_arg = true;
                    self.lit(l);
                    self.in_arg = false;
                }
                Arg::Logical(e) => self.expr(e),
            }
        }
        self.ws0();
        self.out.push(')');
    }

    fn pick_alias(&mut self) -> usize {
        let k = self.alias_points;
        self.alias_points += 1;
        if let Some(s) = &self.alias_script {
            if let Some(c) = s.get(k) {
                return *c as usize;
            }
        }
        self.pick(2)
    }

    fn word_or_sym(&mut self, word: &'static str, sym: &'static str) {
        // a word alias needs whitespace on both sides, a symbolic one does not
        if self.pick_alias() == 0 {
            self.ws1();
            self.out.push_str(word);
            self.ws1();
        } else {
            self.ws_sym();
            self.out.push_str(sym);
            self.ws_sym();
        }
    }

    pub fn cmp(&mut self, p: &Path, op: &CmpOp) {
        self.path(p);
        match op {
            CmpOp::IsTrue => {}
            CmpOp::Ord(o, lit) => {
                let (w, s) = match o {
                    OrdOp::Eq => ("eq", "=="),
                    OrdOp::Ne => ("ne", "!="),
                    OrdOp::Ge => ("ge", ">="),
                    OrdOp::Le => ("le", "<="),
                    OrdOp::Gt => ("gt", ">"),
                    OrdOp::Lt => ("lt", "<"),
                };
                self.word_or_sym(w, s);
                self.lit(lit);
            }
            CmpOp::BitAnd(m) => {
                self.word_or_sym("bitwise_and", "&");
                self.int(*m);
            }
            CmpOp::Contains(b) => {
                self.ws1();
                self.out.push_str("contains");
                self.ws1();
                self.bytes(b);
            }
            CmpOp::Matches(r) => {
                self.word_or_sym("matches", "~");
                self.regex(r);
            }
            CmpOp::Wildcard { strict, pat } => {
                self.ws1();
                self.out
                    .push_str(if *strict { "strict wildcard" } else { "wildcard" });
                self.ws1();
                self.bytes(pat);
            }
            CmpOp::InSet(s) => {
                self.ws1();
                self.out.push_str("in");
                self.ws1();
                self.set(s);
            }
            CmpOp::InList(name) => {
                self.ws1();
                self.out.push_str("in");
                self.ws1();
                self.out.push('$');
                self.out.push_str(name);
            }
        }
    }

    pub fn expr(&mut self, e: &Expr) {
        match e {
            Expr::Cmp(p, op) => self.cmp(p, op),
            Expr::Not(inner) => {
                if self.pick_alias() == 0 {
                    self.out.push_str("not");
                    self.ws1();
                } else {
                    self.out.push('!');
                    self.ws0();
                }
                self.expr(inner);
            }
            Expr::Paren(inner) => {
                self.out.push('(');
                self.ws0();
                self.expr(inner);
                self.ws0();
                self.out.push(')');
            }
            Expr::Comb(op, items) => {
                for (i, it) in items.iter().enumerate() {
                    if i > 0 {
                        let (w, s) = match op {
                            LogOp::And => ("and", "&&"),
                            LogOp::Or => ("or", "||"),
                            LogOp::Xor => ("xor", "^^"),
                        };
                        self.word_or_sym(w, s);
                    }
                    self.expr(it);
                }
            }
            Expr::Quant(q, arg) => {
                self.out.push_str(match q {
                    QOp::Any => "any",
                    QOp::All => "all",
                });
                self.ws0();
                self.out.push('(');
                self.ws0();
                match arg {
                    QArg::Path(p) => self.path(p),
                    QArg::Logical(e) => self.expr(e),
                }
                self.ws0();
                self.out.push(')');
            }
        }
    }

    pub fn finish(self) -> String {
        self.out
    }
    #[allow(dead_code)]
    fn unused(&mut self) {
        let _ = self.alias(&["a"]);
    }
}

pub fn expanded_v6(a: &Ipv6Addr, upper: bool) -> String {
    let segs = a.segments();
    let parts: Vec<String> = segs
        .iter()
        .map(|s| {
            if upper {
                format!("{:04X}", s)
            } else {
                format!("{:x}", s)
            }
        })
        .collect();
    parts.join(":")
}

/// Spell a regex pattern inside a quoted literal so that the engine's literal
/// scanner hands exactly `pattern` to the regex compiler: a `"` outside a
/// character class is written `\"`; everything else is written verbatim.
pub fn regex_quote(pattern: &str) -> String {
    let mut out = String::new();
    let mut in_class = false;
    let mut chars = pattern.chars();
    while let Some(c) = chars.next() {
        match c {
            '\\' => {
                out.push('\\');
                if let Some(n) = chars.next() {
                    out.push(n);
                }
            }
            '"' if !in_class => out.push_str("\\\""),
            '[' if !in_class => {
                in_class = true;
                out.push('[');
            }
            ']' if in_class => {
                in_class = false;
                out.push(']');
            }
            c => out.push(c),
        }
    }
    out
}

pub fn print_filter(env: &Env, e: &Expr, rng: Option<Rng>) -> String {
    let mut p = match rng {
        Some(r) => Printer::random(env, r),
        None => Printer::canonical(env),
    };
    p.expr(e);
    p.finish()
}

pub fn print_value_expr(env: &Env, path: &Path, rng: Option<Rng>) -> String {
    let mut p = match rng {
        Some(r) => Printer::random(env, r),
        None => Printer::canonical(env),
    };
    p.path(path);
    p.finish()
}
