//! Generators: schemes, values, contexts and type-directed filters.

use crate::ast::*;
use crate::engine::site_id;
use crate::prng::Rng;
use crate::refsem::ListState;
use crate::rv::{RType, RV};
use std::collections::{BTreeMap, BTreeSet};
use std::net::{IpAddr, Ipv4Addr, Ipv6Addr};

pub const INT_POOL: [i64; 13] = [
    i64::MIN,
    i64::MIN + 1,
    -256,
    -1,
    0,
    1,
    2,
    7,
    255,
    1 << 32,
    (1 << 32) + 1,
    i64::MAX - 1,
    i64::MAX,
];

pub fn bytes_pool() -> Vec<Vec<u8>> {
    vec![
        b"".to_vec(),
        b"a".to_vec(),
        b"ab".to_vec(),
        b"abc".to_vec(),
        b"abd".to_vec(),
        b"b".to_vec(),
        b"A".to_vec(),
        b"AB".to_vec(),
        b"\x00".to_vec(),
        b"a\x00b".to_vec(),
        b"\xff".to_vec(),
        b"a\xffb".to_vec(),
        b"\xc3\xa9".to_vec(),
        b"\"q\\".to_vec(),
        b"*".to_vec(),
        b"hello world".to_vec(),
        vec![b'x'; 40],
        // byte strings whose text reads as a value of another type
        b"192.0.2.1".to_vec(),
        b"::1".to_vec(),
        b"true".to_vec(),
        b"1337".to_vec(),
        b"null".to_vec(),
        b"[1,2]".to_vec(),
        b"{\"a\":1}".to_vec(),
        b"\x80".to_vec(),
    ]
}

pub fn ip_pool() -> Vec<IpAddr> {
    vec![
        IpAddr::V4(Ipv4Addr::new(0, 0, 0, 0)),
        IpAddr::V4(Ipv4Addr::new(0, 0, 0, 1)),
        IpAddr::V4(Ipv4Addr::new(10, 0, 0, 1)),
        IpAddr::V4(Ipv4Addr::new(10, 0, 0, 2)),
        IpAddr::V4(Ipv4Addr::new(127, 0, 0, 1)),
        IpAddr::V4(Ipv4Addr::new(192, 168, 1, 255)),
        IpAddr::V4(Ipv4Addr::new(255, 255, 255, 255)),
        IpAddr::V6(Ipv6Addr::from(0u128)),
        IpAddr::V6(Ipv6Addr::from(1u128)),
        IpAddr::V6(Ipv6Addr::from(0x0000_0000_0000_0000_0000_ffff_0a00_0001u128)),
        IpAddr::V6(Ipv6Addr::from(0x2001_0db8_0000_0000_0000_0000_0000_0001u128)),
        IpAddr::V6(Ipv6Addr::from(0x2001_0db8_0000_0000_0000_0000_0000_0002u128)),
        IpAddr::V6(Ipv6Addr::from(u128::MAX)),
    ]
}

pub fn key_pool() -> Vec<Vec<u8>> {
    vec![
        b"".to_vec(),
        b"a".to_vec(),
        b"ab".to_vec(),
        b"b".to_vec(),
        b"k1".to_vec(),
        b"K1".to_vec(),
        b"\xc3\xa9".to_vec(),
        b"\xff".to_vec(),
        b"a\xff".to_vec(),
        b"1".to_vec(),
        b"::1".to_vec(),
    ]
}

/// keys that can be written in a filter (UTF-8)
pub const FILTER_KEYS: [&str; 7] = ["", "a", "ab", "b", "k1", "zz", "\u{e9}"];

pub fn gen_int(r: &mut Rng) -> i64 {
    if r.chance(3, 4) {
        *r.pick(&INT_POOL)
    } else if r.bool() {
        r.i64_any()
    } else {
        (r.next() % 1000) as i64 - 500
    }
}

pub fn gen_bytes(r: &mut Rng) -> Vec<u8> {
    if r.chance(3, 4) {
        r.pick(&bytes_pool()).clone()
    } else {
        let n = r.below(12);
        (0..n)
            .map(|_| {
                if r.chance(3, 4) {
                    b"abAB*\\\"?. "[r.below(10)]
                } else {
                    r.next() as u8
                }
            })
            .collect()
    }
}

pub fn gen_ip(r: &mut Rng) -> IpAddr {
    if r.chance(3, 4) {
        *r.pick(&ip_pool())
    } else if r.bool() {
        IpAddr::V4(Ipv4Addr::from(r.next() as u32))
    } else {
        IpAddr::V6(Ipv6Addr::from(
            ((r.next() as u128) << 64) | r.next() as u128,
        ))
    }
}

pub fn gen_scalar(r: &mut Rng, t: &RType) -> RV {
    match t {
        RType::Bool => RV::Bool(r.bool()),
        RType::Int => RV::Int(gen_int(r)),
        RType::Ip => RV::Ip(gen_ip(r)),
        RType::Bytes => RV::Bytes(gen_bytes(r)),
        _ => unreachable!(),
    }
}

/// Type-directed random value with empty / singleton / ragged containers.
pub fn gen_value(r: &mut Rng, t: &RType) -> RV {
    match t {
        RType::Array(e) => {
            let n = match r.below(8) {
                0 => 0,
                1 => 1,
                2..=5 => r.range(2, 4),
                _ => r.range(5, 9),
            };
            RV::Array((**e).clone(), (0..n).map(|_| gen_value(r, e)).collect())
        }
        RType::Map(e) => {
            let n = match r.below(6) {
                0 => 0,
                1 => 1,
                _ => r.range(2, 5),
            };
            let keys = key_pool();
            let mut m = BTreeMap::new();
            for _ in 0..n {
                let k = if r.chance(5, 6) {
                    r.pick(&keys).clone()
                } else {
                    gen_bytes(r)
                };
                m.insert(k, gen_value(r, e));
            }
            RV::Map((**e).clone(), m)
        }
        _ => gen_scalar(r, t),
    }
}

pub type Ctx = Vec<Option<RV>>;

pub fn gen_ctx(r: &mut Rng, env: &Env) -> Ctx {
    env.fields
        .iter()
        .map(|f| {
            if !f.optional || r.chance(3, 4) {
                Some(gen_value(r, &f.ty))
            } else {
                None
            }
        })
        .collect()
}

pub fn show_ctx(env: &Env, ctx: &Ctx) -> serde_json::Value {
    let mut o = serde_json::Map::new();
    for (f, v) in env.fields.iter().zip(ctx) {
        if let Some(v) = v {
            o.insert(f.name.clone(), serde_json::Value::String(v.show()));
        }
    }
    serde_json::Value::Object(o)
}

// ---------------------------------------------------------------------------
// schemes

fn prim_code(t: &RType) -> &'static str {
    match t {
        RType::Int => "num",
        RType::Bytes => "str",
        RType::Ip => "ipa",
        RType::Bool => "tru",
        _ => unreachable!(),
    }
}

pub const PRIMS: [RType; 4] = [RType::Int, RType::Bytes, RType::Ip, RType::Bool];

fn fd(name: &str, ty: RType, optional: bool) -> FieldDesc {
    FieldDesc {
        name: name.to_string(),
        ty,
        optional,
    }
}

pub fn scalar_fields() -> Vec<FieldDesc> {
    let mut v = Vec::new();
    for p in PRIMS.iter() {
        v.push(fd(&format!("{}_m", prim_code(p)), p.clone(), false));
        v.push(fd(&format!("{}_o", prim_code(p)), p.clone(), true));
    }
    v.push(fd("http.host", RType::Bytes, false));
    v.push(fd("req.port.n", RType::Int, true));
    v.push(fd("tru2_m", RType::Bool, false));
    v.push(fd("tru3_o", RType::Bool, true));
    v.push(fd("tru4_m", RType::Bool, false));
    v
}

pub fn container_fields() -> Vec<FieldDesc> {
    let mut v = Vec::new();
    for p in PRIMS.iter() {
        let c = prim_code(p);
        v.push(fd(&format!("l_{}_m", c), RType::arr(p.clone()), false));
        v.push(fd(&format!("l_{}_o", c), RType::arr(p.clone()), true));
        v.push(fd(&format!("m_{}_m", c), RType::map(p.clone()), false));
        v.push(fd(&format!("m_{}_o", c), RType::map(p.clone()), true));
    }
    let a = RType::arr;
    let m = RType::map;
    v.push(fd("ll_num_o", a(a(RType::Int)), true));
    v.push(fd("ll_str_m", a(a(RType::Bytes)), false));
    v.push(fd("ll_tru_m", a(a(RType::Bool)), false));
    v.push(fd("lm_str_o", a(m(RType::Bytes)), true));
    v.push(fd("lm_num_m", a(m(RType::Int)), false));
    v.push(fd("ml_num_m", m(a(RType::Int)), false));
    v.push(fd("ml_str_o", m(a(RType::Bytes)), true));
    v.push(fd("ml_tru_o", m(a(RType::Bool)), true));
    v.push(fd("mm_str_o", m(m(RType::Bytes)), true));
    v.push(fd("mm_ipa_m", m(m(RType::Ip)), false));
    v.push(fd("lll_tru_o", a(a(a(RType::Bool))), true));
    v.push(fd("lll_num_m", a(a(a(RType::Int))), false));
    v.push(fd("mlm_num_o", m(a(m(RType::Int))), true));
    v.push(fd("lml_str_o", a(m(a(RType::Bytes))), true));
    v
}

struct FnTemplate {
    base: &'static str,
    sem: Sem,
    params: Vec<(ArgKind, RType)>,
    opts: Vec<(ArgKind, RV)>,
    ret: RType,
}

fn fn_templates() -> Vec<FnTemplate> {
    use ArgKind::*;
    let a = RType::arr;
    let t1 = |base, sem, k: ArgKind, p: RType, ret: RType| FnTemplate {
        base,
        sem,
        params: vec![(k, p)],
        opts: vec![],
        ret,
    };
    vec![
        t1("ids", Sem::Ident, Both, RType::Bytes, RType::Bytes),
        t1("idn", Sem::Ident, Both, RType::Int, RType::Int),
        t1("idi", Sem::Ident, Both, RType::Ip, RType::Ip),
        t1("idt", Sem::Ident, Field, RType::Bool, RType::Bool),
        t1("idls", Sem::Ident, Field, a(RType::Bytes), a(RType::Bytes)),
        t1("idlt", Sem::Ident, Field, a(RType::Bool), a(RType::Bool)),
        t1(
            "idms",
            Sem::Ident,
            Field,
            RType::map(RType::Bytes),
            RType::map(RType::Bytes),
        ),
        t1(
            "idmt",
            Sem::Ident,
            Field,
            RType::map(RType::Bool),
            RType::map(RType::Bool),
        ),
        // results that are OWNED nested containers (a field path only ever lends)
        t1("idlls", Sem::Own, Field, a(a(RType::Bytes)), a(a(RType::Bytes))),
        t1("idllt", Sem::Own, Field, a(a(RType::Bool)), a(a(RType::Bool))),
        t1("idlmn", Sem::Own, Field, a(RType::map(RType::Int)), a(RType::map(RType::Int))),
        t1("idmln", Sem::Own, Field, RType::map(a(RType::Int)), RType::map(a(RType::Int))),
        t1("idllln", Sem::Own, Field, a(a(a(RType::Int))), a(a(a(RType::Int)))),
        t1("lens", Sem::Len, Both, RType::Bytes, RType::Int),
        t1("lenls", Sem::Len, Field, a(RType::Bytes), RType::Int),
        t1("lenln", Sem::Len, Field, a(RType::Int), RType::Int),
        t1("lenmn", Sem::Len, Field, RType::map(RType::Int), RType::Int),
        t1("upper", Sem::Upper, Both, RType::Bytes, RType::Bytes),
        FnTemplate {
            base: "sum",
            sem: Sem::Add,
            params: vec![(Both, RType::Int)],
            opts: vec![(Both, RV::Int(1)), (Literal, RV::Int(100))],
            ret: RType::Int,
        },
        t1("head", Sem::First, Field, a(RType::Bytes), RType::Bytes),
        t1("headn", Sem::First, Field, a(RType::Int), RType::Int),
        t1("tally", Sem::CountTrue, Field, a(RType::Bool), RType::Int),
        t1("keepeven", Sem::DropOdd, Both, RType::Int, RType::Int),
        t1("neg", Sem::BoolNot, Field, RType::Bool, RType::Bool),
        FnTemplate {
            base: "nboth",
            sem: Sem::BoolNot,
            params: vec![(Field, RType::Bool), (Field, RType::Bool)],
            opts: vec![],
            ret: RType::Bool,
        },
        t1("lift", Sem::Lift, Field, RType::Bool, a(RType::Bool)),
        // callable with an empty argument list: its only parameter is optional
        FnTemplate {
            base: "zero",
            sem: Sem::Add,
            params: vec![],
            opts: vec![(Literal, RV::Int(7))],
            ret: RType::Int,
        },
        FnTemplate {
            base: "pickb",
            sem: Sem::Pick,
            params: vec![(Field, RType::Bool), (Both, RType::Bytes)],
            opts: vec![],
            ret: RType::Bytes,
        },
        FnTemplate {
            base: "pickn",
            sem: Sem::Pick,
            params: vec![(Field, RType::Bool), (Both, RType::Int)],
            opts: vec![],
            ret: RType::Int,
        },
        FnTemplate {
            base: "picki",
            sem: Sem::Pick,
            params: vec![(Field, RType::Bool), (Both, RType::Ip)],
            opts: vec![],
            ret: RType::Ip,
        },
        FnTemplate {
            base: "glue",
            sem: Sem::Glue,
            params: vec![(Field, RType::Bytes), (Literal, RType::Bytes)],
            opts: vec![(Both, RV::Bytes(b"!".to_vec()))],
            ret: RType::Bytes,
        },
    ]
}

/// The harness function family, `aliases` names per template (so that every
/// call site in a generated filter can use its own name).
pub fn function_family(aliases: u32) -> Vec<FuncDesc> {
    let mut per_sem: BTreeMap<u32, u32> = BTreeMap::new();
    let mut out = Vec::new();
    for t in fn_templates() {
        for k in 0..aliases {
            let n = per_sem.entry(crate::engine::sem_index(t.sem)).or_insert(0);
            let site = site_id(t.sem, *n);
            *n += 1;
            out.push(FuncDesc {
                name: format!("{}{}", t.base, k + 1),
                sem: t.sem,
                params: t.params.clone(),
                opts: t.opts.clone(),
                ret: t.ret.clone(),
                site,
            });
        }
    }
    for k in 0..aliases.max(2) {
        out.push(FuncDesc {
            name: format!("tag{}", k + 1),
            sem: Sem::Ctx,
            params: vec![(ArgKind::Both, RType::Bytes)],
            opts: vec![
                (ArgKind::Both, RV::Bytes(vec![])),
                (ArgKind::Both, RV::Bytes(vec![])),
            ],
            ret: RType::Bytes,
            site: site_id(Sem::Ctx, k),
        });
        out.push(FuncDesc {
            name: format!("join{}", k + 1),
            sem: Sem::Concat,
            params: vec![],
            opts: vec![],
            ret: RType::Bytes,
            site: site_id(Sem::Concat, k),
        });
    }
    out
}

/// Scheme variants: nil-not-equal setting x list registration order.
pub fn rich_env(variant: usize) -> Env {
    let mut fields = scalar_fields();
    fields.extend(container_fields());
    let orders: [[RType; 3]; 2] = [
        [RType::Int, RType::Ip, RType::Bytes],
        [RType::Bytes, RType::Int, RType::Ip],
    ];
    Env {
        fields,
        funcs: function_family(2),
        lists: orders[(variant / 2) % 2]
            .iter()
            .map(|t| (t.clone(), ListKind::Harness))
            .collect(),
        nil_ne: variant % 2 == 0,
    }
}

pub fn scalar_env(nil_ne: bool) -> Env {
    Env {
        fields: scalar_fields(),
        funcs: vec![],
        lists: vec![],
        nil_ne,
    }
}

pub fn gen_lists(r: &mut Rng, env: &Env) -> ListState {
    let mut sets = BTreeMap::new();
    for (t, kind) in &env.lists {
        if *kind != ListKind::Harness {
            continue;
        }
        for name in LIST_NAMES.iter().take(4) {
            if r.chance(3, 4) {
                let n = r.below(6);
                let mut s = BTreeSet::new();
                for _ in 0..n {
                    s.insert(gen_scalar(r, t));
                }
                sets.insert((t.clone(), name.to_string()), s);
            }
        }
    }
    ListState { sets }
}

pub const LIST_NAMES: [&str; 11] = [
    "a", "abc", "x.y", "l_1", "0", "9.z_", "office.ips", "long_name.with.dots_0", "a..b", "x_1...y.z", "_",
];

// ---------------------------------------------------------------------------
// filters

#[derive(Clone, Debug)]
pub struct GenCfg {
    pub containers: bool,
    pub calls: bool,
    pub quant: bool,
    pub lists: bool,
    pub sets: bool,
    pub contains: bool,
    pub regex: bool,
    pub wildcard: bool,
    pub max_depth: usize,
    /// bytes literal forms allowed outside call arguments
    pub hex_bytes: bool,
}

impl GenCfg {
    pub fn scalar_only() -> Self {
        GenCfg {
            containers: false,
            calls: false,
            quant: false,
            lists: false,
            sets: false,
            contains: false,
            regex: false,
            wildcard: false,
            max_depth: 5,
            hex_bytes: true,
        }
    }
    pub fn full() -> Self {
        GenCfg {
            containers: true,
            calls: true,
            quant: true,
            lists: true,
            sets: true,
            contains: true,
            regex: false,
            wildcard: true,
            max_depth: 4,
            hex_bytes: true,
        }
    }
}

pub struct FilterGen<'a> {
    pub env: &'a Env,
    pub cfg: GenCfg,
    pub r: Rng,
    /// function names already used in this filter (one call site per name)
    used_funcs: BTreeSet<usize>,
}

pub fn raw_ok(data: &[u8], hashes: u8) -> bool {
    // body must be UTF-8 and must not contain `"` followed by >= hashes `#`
    if std::str::from_utf8(data).is_err() {
        return false;
    }
    let mut i = 0;
    while i < data.len() {
        if data[i] == b'"' {
            let mut n = 0usize;
            while i + 1 + n < data.len() && data[i + 1 + n] == b'#' {
                n += 1;
            }
            if n >= hashes as usize {
                return false;
            }
        }
        i += 1;
    }
    true
}

impl<'a> FilterGen<'a> {
    pub fn new(env: &'a Env, cfg: GenCfg, r: Rng) -> Self {
        FilterGen {
            env,
            cfg,
            r,
            used_funcs: BTreeSet::new(),
        }
    }

    pub fn bytes_lit(&mut self, data: Vec<u8>, in_arg: bool) -> BytesLit {
        let mut forms = vec![BytesForm::Quoted, BytesForm::Quoted];
        for h in [0u8, 1, 2] {
            if raw_ok(&data, h) {
                forms.push(BytesForm::Raw(h));
                break;
            }
        }
        if !in_arg && self.cfg.hex_bytes && data.len() >= 2 {
            forms.push(BytesForm::Hex(*self.r.pick(&[b':', b'-', b'.'])));
        }
        let form = *self.r.pick(&forms);
        BytesLit { data, form }
    }

    pub fn lit(&mut self, t: &RType, in_arg: bool) -> Lit {
        match t {
            RType::Int => Lit::Int(gen_int(&mut self.r)),
            RType::Ip => Lit::Ip(gen_ip(&mut self.r)),
            RType::Bytes => {
                let d = gen_bytes(&mut self.r);
                Lit::Bytes(self.bytes_lit(d, in_arg))
            }
            _ => unreachable!(),
        }
    }

    fn set_lit(&mut self, t: &RType) -> SetLit {
        let n = self.r.below(5);
        match t {
            RType::Int => SetLit::Int(
                (0..n)
                    .map(|_| {
                        let a = gen_int(&mut self.r);
                        if self.r.bool() {
                            IntItem::One(a)
                        } else {
                            let b = gen_int(&mut self.r);
                            IntItem::Range(a.min(b), a.max(b))
                        }
                    })
                    .collect(),
            ),
            RType::Ip => SetLit::Ip(
                (0..n)
                    .map(|_| {
                        let a = gen_ip(&mut self.r);
                        match self.r.below(3) {
                            0 => IpItem::Addr(a),
                            1 => {
                                let bits = if a.is_ipv4() { 32 } else { 128 };
                                let len = self.r.below(bits + 1) as u8;
                                IpItem::Cidr(mask_ip(&a, len), len)
                            }
                            _ => {
                                let b = loop {
                                    let b = gen_ip(&mut self.r);
                                    if b.is_ipv4() == a.is_ipv4() {
                                        break b;
                                    }
                                };
                                if crate::refsem::cmp_ip(&a, &b) == Some(std::cmp::Ordering::Greater)
                                {
                                    IpItem::Range(b, a)
                                } else {
                                    IpItem::Range(a, b)
                                }
                            }
                        }
                    })
                    .collect(),
            ),
            RType::Bytes => SetLit::Bytes(
                (0..n)
                    .map(|_| {
                        let d = gen_bytes(&mut self.r);
                        self.bytes_lit(d, false)
                    })
                    .collect(),
            ),
            _ => unreachable!(),
        }
    }

    /// an operator applicable to a scalar of type `t`
    pub fn cmp_op(&mut self, t: &RType) -> CmpOp {
        match t {
            RType::Bool => CmpOp::IsTrue,
            _ => {
                let mut choices: Vec<u8> = vec![0, 0, 0];
                if self.cfg.sets {
                    choices.push(1);
                }
                if self.cfg.lists && self.env.has_list(t) {
                    choices.push(2);
                }
                if *t == RType::Int {
                    choices.push(3);
                }
                if *t == RType::Bytes {
                    if self.cfg.contains {
                        choices.push(4);
                    }
                    if self.cfg.wildcard {
                        choices.push(5);
                    }
                    if self.cfg.regex {
                        choices.push(6);
                    }
                }
                match *self.r.pick(&choices) {
                    0 => {
                        let op = *self.r.pick(&ORD_OPS);
                        CmpOp::Ord(op, self.lit(t, false))
                    }
                    1 => CmpOp::InSet(self.set_lit(t)),
                    2 => CmpOp::InList(self.r.pick(&LIST_NAMES).to_string()),
                    3 => CmpOp::BitAnd(gen_int(&mut self.r)),
                    4 => {
                        let d = gen_bytes(&mut self.r);
                        let d = if d.len() > 3 && self.r.bool() {
                            d[1..3].to_vec()
                        } else {
                            d
                        };
                        CmpOp::Contains(self.bytes_lit(d, false))
                    }
                    5 => {
                        let pat = gen_wildcard(&mut self.r);
                        let form = if raw_ok(&pat, 0) && self.r.bool() {
                            BytesForm::Raw(0)
                        } else {
                            BytesForm::Quoted
                        };
                        CmpOp::Wildcard {
                            strict: self.r.bool(),
                            pat: BytesLit { data: pat, form },
                        }
                    }
                    _ => {
                        let p = gen_regex(&mut self.r, 2);
                        let raw = if raw_ok(p.as_bytes(), 1) && self.r.bool() {
                            Some(1)
                        } else {
                            None
                        };
                        CmpOp::Matches(RegexLit { pattern: p, raw })
                    }
                }
            }
        }
    }

    fn gen_idx(&mut self, container: &RType, allow_each: bool) -> Idx {
        if allow_each && self.r.chance(2, 5) {
            return Idx::Each;
        }
        match container {
            RType::Array(_) => Idx::Arr(*self.r.pick(&[0u32, 0, 1, 1, 2, 3, 5, 1 << 31, u32::MAX])),
            RType::Map(_) => Idx::Key(self.r.pick(&FILTER_KEYS).to_string()),
            _ => unreachable!(),
        }
    }

    /// Candidate bases (fields and, if enabled, calls) whose type can be
    /// indexed down to `target`.
    fn reaches(t: &RType, target: &RType) -> bool {
        t == target || t.elem().map_or(false, |e| Self::reaches(e, target))
    }

    /// A path whose element type is `target`. `each`: Some(true) = must
    /// contain a `[*]`, Some(false) = must not, None = either.
    pub fn path_to(&mut self, target: &RType, each: Option<bool>, depth: usize) -> Option<Path> {
        // choose a base
        let want_call = self.cfg.calls && depth < self.cfg.max_depth && self.r.chance(1, 4);
        let (base, mut t) = if want_call {
            match self.call_reaching(target, depth + 1) {
                Some(x) => x,
                None => self.field_reaching(target, each)?,
            }
        } else {
            self.field_reaching(target, each)?
        };
        let mut idx = Vec::new();
        let mut has_each = false;
        while &t != target {
            let allow_each = each != Some(false);
            let i = self.gen_idx(&t, allow_each);
            if i == Idx::Each {
                has_each = true;
            }
            idx.push(i);
            t = t.elem().unwrap().clone();
        }
        if each == Some(true) && !has_each {
            // force one of the index steps to be [*]
            if idx.is_empty() {
                return None;
            }
            let k = self.r.below(idx.len());
            idx[k] = Idx::Each;
        }
        Some(Path { base, idx })
    }

    fn field_reaching(&mut self, target: &RType, each: Option<bool>) -> Option<(Base, RType)> {
        let cands: Vec<usize> = self
            .env
            .fields
            .iter()
            .enumerate()
            .filter(|(_, f)| {
                Self::reaches(&f.ty, target)
                    && (self.cfg.containers || f.ty.is_scalar())
                    && !(each == Some(true) && &f.ty == target)
            })
            .map(|(i, _)| i)
            .collect();
        if cands.is_empty() {
            return None;
        }
        let f = *self.r.pick(&cands);
        Some((Base::Field(f), self.env.fields[f].ty.clone()))
    }

    /// A call whose (possibly mapped) type can be indexed down to `target`.
    fn call_reaching(&mut self, target: &RType, depth: usize) -> Option<(Base, RType)> {
        let cands: Vec<usize> = (0..self.env.funcs.len())
            .filter(|i| !self.used_funcs.contains(i))
            .filter(|i| {
                let f = &self.env.funcs[*i];
                match f.sem {
                    Sem::Concat => {
                        *target == RType::Bytes || matches!(target, RType::Array(_)) || true
                    }
                    Sem::Boom => false,
                    _ => Self::reaches(&f.ret, target) || Self::reaches(&RType::arr(f.ret.clone()), target),
                }
            })
            .collect();
        if cands.is_empty() {
            return None;
        }
        for _ in 0..4 {
            let fi = *self.r.pick(&cands);
            if self.used_funcs.contains(&fi) {
                continue;
            }
            // reserve the name before generating the (possibly nested) arguments
            self.used_funcs.insert(fi);
            if let Some((call, ty)) = self.gen_call(fi, target, depth) {
                if Self::reaches(&ty, target) {
                    return Some((Base::Call(Box::new(call)), ty));
                }
            }
        }
        None
    }

    /// Generate a call of function `fi`; prefer a shape (mapped or not) whose
    /// type reaches `target`.
    fn gen_call(&mut self, fi: usize, target: &RType, depth: usize) -> Option<(Call, RType)> {
        let f = self.env.funcs[fi].clone();
        if f.sem == Sem::Concat {
            // concat over bytes or over arrays that can reach the target
            let t0 = if let RType::Array(_) = target {
                target.clone()
            } else if *target == RType::Bytes && self.r.bool() {
                RType::Bytes
            } else if target.is_scalar() {
                RType::arr(target.clone())
            } else {
                return None;
            };
            if !Self::reaches(&t0, target) {
                return None;
            }
            let n = self.r.range(2, 4);
            let mut args = Vec::new();
            for i in 0..n {
                // first argument must not be a literal for arrays; literals ok for bytes
                let a = if t0 == RType::Bytes && i > 0 && self.r.chance(1, 3) {
                    Arg::Lit(self.lit(&RType::Bytes, true))
                } else {
                    Arg::Path(self.path_to(&t0, Some(false), depth)?)
                };
                args.push(a);
            }
            return Some((Call { func: fi, args }, t0));
        }
        let want_mapped = !Self::reaches(&f.ret, target) || (self.cfg.containers && self.r.chance(1, 3));
        let nopt = self.r.below(f.opts.len() + 1);
        let mut args = Vec::new();
        let mut mapped = false;
        for i in 0..f.params.len() + nopt {
            let (kind, ty) = if i < f.params.len() {
                f.params[i].clone()
            } else {
                let (k, d) = &f.opts[i - f.params.len()];
                (k.clone(), d.ty())
            };
            let lit_ok = kind != ArgKind::Field && ty.is_scalar() && ty != RType::Bool;
            let field_ok = kind != ArgKind::Literal;
            let a = if i == 0 && want_mapped && field_ok && self.cfg.containers {
                match self.path_to(&ty, Some(true), depth) {
                    Some(p) => {
                        mapped = true;
                        Arg::Path(p)
                    }
                    None => Arg::Path(self.path_to(&ty, Some(false), depth)?),
                }
            } else if lit_ok && (!field_ok || self.r.chance(1, 3)) {
                Arg::Lit(self.lit(&ty, true))
            } else if !field_ok {
                return None;
            } else if (ty == RType::Bool || ty == RType::bool_arr())
                && depth < self.cfg.max_depth
                && self.r.chance(1, 2)
            {
                let e = if ty == RType::Bool {
                    self.bool_expr(depth + 1)
                } else {
                    self.boolarr_expr(depth + 1)?
                };
                Arg::Logical(e)
            } else {
                Arg::Path(self.path_to(&ty, Some(false), depth)?)
            };
            args.push(a);
        }
        let ty = if mapped {
            RType::arr(f.ret.clone())
        } else {
            f.ret.clone()
        };
        Some((Call { func: fi, args }, ty))
    }

    fn scalar_type(&mut self) -> RType {
        self.r.pick(&PRIMS).clone()
    }

    pub fn scalar_cmp(&mut self, depth: usize) -> Expr {
        for _ in 0..8 {
            let t = self.scalar_type();
            if let Some(p) = self.path_to(&t, Some(false), depth) {
                let op = self.cmp_op(&t);
                return Expr::Cmp(p, op);
            }
        }
        // always possible: a bare boolean field
        let f = self
            .env
            .fields
            .iter()
            .position(|f| f.ty == RType::Bool)
            .expect("scheme has a Bool field");
        Expr::Cmp(Path::field(f), CmpOp::IsTrue)
    }

    pub fn bool_expr(&mut self, depth: usize) -> Expr {
        let leaf = depth >= self.cfg.max_depth;
        let c = if leaf { 0 } else { self.r.below(10) };
        match c {
            0..=3 => self.scalar_cmp(depth),
            4 => Expr::not(self.bool_expr(depth + 1)),
            5 => Expr::paren(self.bool_expr(depth + 1)),
            6..=7 => {
                let op = *self.r.pick(&LOG_OPS);
                let n = self.r.range(2, 4);
                Expr::Comb(op, (0..n).map(|_| self.bool_expr(depth + 1)).collect())
            }
            _ => {
                if self.cfg.quant && self.cfg.containers {
                    let q = if self.r.bool() { QOp::Any } else { QOp::All };
                    if self.r.chance(1, 5) {
                        if let Some(p) = self.path_to(&RType::bool_arr(), Some(false), depth + 1) {
                            return Expr::Quant(q, QArg::Path(p));
                        }
                    }
                    match self.boolarr_expr(depth + 1) {
                        Some(e) => Expr::Quant(q, QArg::Logical(Box::new(e))),
                        None => self.scalar_cmp(depth),
                    }
                } else {
                    self.scalar_cmp(depth)
                }
            }
        }
    }

    pub fn boolarr_leaf(&mut self, depth: usize) -> Option<Expr> {
        if self.r.chance(1, 6) {
            // a boolean array used directly
            if let Some(p) = self.path_to(&RType::bool_arr(), Some(false), depth) {
                return Some(Expr::Cmp(p, CmpOp::IsTrue));
            }
        }
        for _ in 0..8 {
            let t = self.scalar_type();
            if let Some(p) = self.path_to(&t, Some(true), depth) {
                let op = self.cmp_op(&t);
                return Some(Expr::Cmp(p, op));
            }
        }
        None
    }

    pub fn boolarr_expr(&mut self, depth: usize) -> Option<Expr> {
        let leaf = depth >= self.cfg.max_depth;
        let c = if leaf { 0 } else { self.r.below(8) };
        match c {
            0..=3 => self.boolarr_leaf(depth),
            4 => Some(Expr::not(self.boolarr_expr(depth + 1)?)),
            5 => Some(Expr::paren(self.boolarr_expr(depth + 1)?)),
            _ => {
                let op = *self.r.pick(&LOG_OPS);
                let n = self.r.range(2, 3);
                let mut items = Vec::new();
                for _ in 0..n {
                    items.push(self.boolarr_expr(depth + 1)?);
                }
                Some(Expr::Comb(op, items))
            }
        }
    }

    pub fn filter(&mut self) -> Expr {
        self.used_funcs.clear();
        self.bool_expr(0).normalize()
    }

    /// a value expression whose base is a function call
    pub fn value_call_expr(&mut self, target: &RType) -> Option<Path> {
        self.used_funcs.clear();
        let (base, mut t) = self.call_reaching(target, 1)?;
        let mut idx = vec![];
        while &t != target {
            if self.r.chance(1, 4) {
                break;
            }
            let i = self.gen_idx(&t, false);
            idx.push(i);
            t = t.elem().unwrap().clone();
        }
        Some(Path { base, idx }.normalize())
    }

    /// a value expression (path without its own `[*]`) of any type
    pub fn value_expr(&mut self) -> Option<Path> {
        self.used_funcs.clear();
        let f = self.r.below(self.env.fields.len());
        let mut t = self.env.fields[f].ty.clone();
        // sometimes stop early to get container-typed values
        let mut target = t.clone();
        while let Some(e) = target.elem() {
            if self.r.chance(1, 3) {
                break;
            }
            target = e.clone();
        }
        if !self.cfg.containers {
            t = self.scalar_type();
            target = t;
        }
        self.path_to(&target, Some(false), 0).map(|p| p.normalize())
    }
}

pub fn mask_ip(a: &IpAddr, len: u8) -> IpAddr {
    match a {
        IpAddr::V4(v) => {
            let x = u32::from(*v);
            let m = if len == 0 { 0 } else { u32::MAX << (32 - len as u32) };
            IpAddr::V4(Ipv4Addr::from(x & m))
        }
        IpAddr::V6(v) => {
            let x = u128::from(*v);
            let m = if len == 0 {
                0
            } else {
                u128::MAX << (128 - len as u32)
            };
            IpAddr::V6(Ipv6Addr::from(x & m))
        }
    }
}

/// A valid wildcard pattern (bytes after string unescaping).
pub fn gen_wildcard(r: &mut Rng) -> Vec<u8> {
    let n = r.below(6);
    let mut out: Vec<u8> = Vec::new();
    let mut last_star = false;
    for _ in 0..n {
        match r.below(8) {
            0 | 1 => {
                if !last_star {
                    out.push(b'*');
                    last_star = true;
                }
                continue;
            }
            2 => out.extend_from_slice(b"\\*"),
            3 => out.extend_from_slice(b"\\\\"),
            4 => out.push(b'?'),
            5 => out.push(b'A'),
            _ => out.push(b"abhe lo"[r.below(7)]),
        }
        last_star = false;
    }
    out
}

/// A regex from the modelled subset.
pub fn gen_regex(r: &mut Rng, depth: usize) -> String {
    let n = r.range(1, 3);
    let mut s = String::new();
    for _ in 0..n {
        let atom = match r.below(if depth == 0 { 6 } else { 9 }) {
            0 | 1 => (b"abAhel"[r.below(6)] as char).to_string(),
            2 => ".".to_string(),
            3 => {
                let opts = ["[ab]", "[^a]", "[a-c]", "[\"x]", "[\\]a]", "[A-Z0-9]", "[\\x00-\\x1f]"];
                r.pick(&opts).to_string()
            }
            4 => {
                let opts = ["\\.", "\\\\", "\"", "\\x41", "\\xff", "\\d", "\\w", "\\*"];
                r.pick(&opts).to_string()
            }
            5 => {
                if s.is_empty() && r.bool() {
                    "^".to_string()
                } else {
                    "l".to_string()
                }
            }
            6 => format!("({})", gen_regex(r, depth - 1)),
            7 => format!("(?:{}|{})", gen_regex(r, depth - 1), gen_regex(r, depth - 1)),
            _ => format!("({}|{})", gen_regex(r, depth - 1), gen_regex(r, depth - 1)),
        };
        let is_anchor = atom == "^";
        s.push_str(&atom);
        if !is_anchor {
            match r.below(8) {
                0 => s.push('?'),
                1 => s.push('*'),
                2 => s.push('+'),
                _ => {}
            }
        }
    }
    if r.chance(1, 8) {
        s.push('$');
    }
    s
}
