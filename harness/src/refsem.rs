//! Executable reference semantics: typing, evaluation, nesting, field usage.
//! Written from the property statements; works only on `ast`/`rv` types.

use crate::ast::*;
use crate::rv::{RRes, RType, RV};
use std::collections::{BTreeMap, BTreeSet};
use std::net::IpAddr;

// ---------------------------------------------------------------------------
// typing

#[derive(Clone, Debug, PartialEq, Eq)]
pub enum ETy {
    Bool,
    BoolArr,
}

impl ETy {
    pub fn as_rtype(&self) -> RType {
        match self {
            ETy::Bool => RType::Bool,
            ETy::BoolArr => RType::bool_arr(),
        }
    }
}

pub type TErr = String;

pub fn valid_list_name(name: &str) -> bool {
    !name.is_empty()
        && name
            .chars()
            .all(|c| matches!(c, 'a'..='z' | '0'..='9' | '_' | '.'))
        && !name.starts_with('.')
        && !name.ends_with('.')
}

/// Type of the identifier at the base of a path (field type or call type).
fn type_base(env: &Env, base: &Base) -> Result<RType, TErr> {
    match base {
        Base::Field(f) => Ok(env.fields[*f].ty.clone()),
        Base::Call(c) => type_call(env, c),
    }
}

/// "Element type" of a path: the type reached after applying every index,
/// where `[*]` steps into the container like an index does. Checks that each
/// index kind fits the container it is applied to.
pub fn type_path_elem(env: &Env, p: &Path) -> Result<RType, TErr> {
    let mut t = type_base(env, &p.base)?;
    for i in &p.idx {
        t = match (i, t) {
            (Idx::Arr(_), RType::Array(e)) => *e,
            (Idx::Key(_), RType::Map(e)) => *e,
            (Idx::Each, RType::Array(e)) | (Idx::Each, RType::Map(e)) => *e,
            (i, t) => return Err(format!("index {:?} not applicable to {}", i, t.short())),
        };
    }
    Ok(t)
}

/// Type of a path used as a value where `[*]` is not permitted.
pub fn type_path_value(env: &Env, p: &Path) -> Result<RType, TErr> {
    if p.each_count() > 0 {
        return Err("[*] not allowed in this value position".into());
    }
    type_path_elem(env, p)
}

fn kind_ok(kind: &ArgKind, is_lit: bool) -> bool {
    match kind {
        ArgKind::Both => true,
        ArgKind::Literal => is_lit,
        ArgKind::Field => !is_lit,
    }
}

/// Static type of an argument as the function's parameter check sees it, and
/// whether it is a literal. `first` = argument 0 (may be mapped).
fn type_arg(env: &Env, a: &Arg, first: bool) -> Result<(RType, bool), TErr> {
    match a {
        Arg::Lit(l) => Ok((l.ty(), true)),
        Arg::Path(p) => {
            if p.each_count() > 0 && !first {
                return Err("[*] only allowed in the first argument".into());
            }
            Ok((type_path_elem(env, p)?, false))
        }
        Arg::Logical(e) => Ok((type_expr(env, e)?.as_rtype(), false)),
    }
}

pub fn call_is_mapped(c: &Call) -> bool {
    matches!(c.args.first(), Some(Arg::Path(p)) if p.each_count() > 0)
}

/// Type of a call used as an identifier: `ret`, or `Array(ret)` when mapped.
pub fn type_call(env: &Env, c: &Call) -> Result<RType, TErr> {
    let f = &env.funcs[c.func];
    let ret = match f.sem {
        Sem::Concat => {
            if c.args.len() < 2 {
                return Err("concat needs at least two arguments".into());
            }
            let (t0, _) = type_arg(env, &c.args[0], true)?;
            match &t0 {
                RType::Bytes | RType::Array(_) => {}
                t => return Err(format!("concat of {}", t.short())),
            }
            for a in &c.args[1..] {
                let (t, _) = type_arg(env, a, false)?;
                if t != t0 {
                    return Err("concat arguments of different types".into());
                }
            }
            t0
        }
        _ => {
            let min = f.params.len();
            let max = f.params.len() + f.opts.len();
            if c.args.len() < min || c.args.len() > max {
                return Err(format!(
                    "{} takes {}..={} arguments, got {}",
                    f.name,
                    min,
                    max,
                    c.args.len()
                ));
            }
            for (i, a) in c.args.iter().enumerate() {
                let (t, is_lit) = type_arg(env, a, i == 0)?;
                let (kind, want) = if i < min {
                    (&f.params[i].0, f.params[i].1.clone())
                } else {
                    (&f.opts[i - min].0, f.opts[i - min].1.ty())
                };
                if !kind_ok(kind, is_lit) {
                    return Err(format!("argument {} of {}: wrong kind", i, f.name));
                }
                if t != want {
                    return Err(format!(
                        "argument {} of {}: {} expected, {} given",
                        i,
                        f.name,
                        want.short(),
                        t.short()
                    ));
                }
            }
            f.ret.clone()
        }
    };
    Ok(if call_is_mapped(c) {
        RType::arr(ret)
    } else {
        ret
    })
}

pub fn type_cmp(env: &Env, p: &Path, op: &CmpOp) -> Result<ETy, TErr> {
    let t = type_path_elem(env, p)?;
    let each = p.each_count() > 0;
    let out = if each { ETy::BoolArr } else { ETy::Bool };
    match op {
        CmpOp::IsTrue => match t {
            RType::Bool => Ok(out),
            RType::Array(e) if *e == RType::Bool && !each => Ok(ETy::BoolArr),
            t => Err(format!("{} used without an operator", t.short())),
        },
        CmpOp::Ord(_, lit) => {
            if matches!(t, RType::Int | RType::Ip | RType::Bytes) && lit.ty() == t {
                Ok(out)
            } else {
                Err(format!("ordering of {} with {:?}", t.short(), lit.ty()))
            }
        }
        CmpOp::BitAnd(_) => {
            if t == RType::Int {
                Ok(out)
            } else {
                Err(format!("bitwise and on {}", t.short()))
            }
        }
        CmpOp::Contains(_) | CmpOp::Matches(_) | CmpOp::Wildcard { .. } => {
            if t == RType::Bytes {
                Ok(out)
            } else {
                Err(format!("bytes operator on {}", t.short()))
            }
        }
        CmpOp::InSet(s) => {
            if matches!(t, RType::Int | RType::Ip | RType::Bytes) && s.ty() == t {
                Ok(out)
            } else {
                Err(format!("in-set of {} with {:?}", t.short(), s.ty()))
            }
        }
        CmpOp::InList(name) => {
            if !matches!(t, RType::Int | RType::Ip | RType::Bytes) {
                return Err(format!("in-list on {}", t.short()));
            }
            if !env.has_list(&t) {
                return Err(format!("no list registered for {}", t.short()));
            }
            if !valid_list_name(name) {
                return Err(format!("invalid list name {:?}", name));
            }
            Ok(out)
        }
    }
}

pub fn type_expr(env: &Env, e: &Expr) -> Result<ETy, TErr> {
    match e {
        Expr::Cmp(p, op) => type_cmp(env, p, op),
        Expr::Not(e) | Expr::Paren(e) => type_expr(env, e),
        Expr::Comb(_, items) => {
            if items.len() < 2 {
                return Err("chain with fewer than two operands".into());
            }
            let t0 = type_expr(env, &items[0])?;
            for it in &items[1..] {
                if type_expr(env, it)? != t0 {
                    return Err("operands of a logical operator differ in type".into());
                }
            }
            Ok(t0)
        }
        Expr::Quant(_, arg) => {
            let t = match arg {
                QArg::Path(p) => type_path_value(env, p)?,
                QArg::Logical(e) => type_expr(env, e)?.as_rtype(),
            };
            if t == RType::bool_arr() {
                Ok(ETy::Bool)
            } else {
                Err(format!("quantifier over {}", t.short()))
            }
        }
    }
}

pub fn type_filter(env: &Env, e: &Expr) -> Result<(), TErr> {
    match type_expr(env, e)? {
        ETy::Bool => Ok(()),
        ETy::BoolArr => Err("top level is a boolean array".into()),
    }
}

/// Value expression: own index path free of `[*]`.
pub fn type_value_expr(env: &Env, p: &Path) -> Result<RType, TErr> {
    type_path_value(env, p)
}

// ---------------------------------------------------------------------------
// evaluation

/// State of the harness list matchers (and built-in kinds) in a context.
#[derive(Clone, Debug, Default, PartialEq, Eq)]
pub struct ListState {
    /// (type, list name) -> members
    pub sets: BTreeMap<(RType, String), BTreeSet<RV>>,
}

#[derive(Clone, Debug, PartialEq, Eq)]
pub struct CallEvent {
    pub site: u32,
    pub args: Vec<RRes>,
    pub result: Option<RV>,
}

#[derive(Clone, Debug, PartialEq, Eq)]
pub struct ListEvent {
    pub name: String,
    pub value: RV,
}

pub struct Eval<'a> {
    pub env: &'a Env,
    pub vals: &'a [Option<RV>],
    pub lists: &'a ListState,
    pub calls: Vec<CallEvent>,
    pub list_queries: Vec<ListEvent>,
    /// set when evaluation met something outside the modelled subset
    pub unsupported: Option<String>,
    /// longest list a `[*]` path evaluated to
    pub max_list: usize,
    /// deepest index path evaluated
    pub max_steps: usize,
    /// an element-wise operator met operands of different lengths
    pub ragged: bool,
}

#[derive(Clone, Debug, PartialEq, Eq)]
pub enum EVal {
    B(bool),
    V(Vec<bool>),
}

pub fn cmp_ip(a: &IpAddr, b: &IpAddr) -> Option<std::cmp::Ordering> {
    match (a, b) {
        (IpAddr::V4(x), IpAddr::V4(y)) => Some(u32::from(*x).cmp(&u32::from(*y))),
        (IpAddr::V6(x), IpAddr::V6(y)) => Some(u128::from(*x).cmp(&u128::from(*y))),
        _ => None,
    }
}

fn ord_matches(op: OrdOp, o: Option<std::cmp::Ordering>) -> bool {
    use std::cmp::Ordering::*;
    match o {
        None => op == OrdOp::Ne,
        Some(o) => match op {
            OrdOp::Eq => o == Equal,
            OrdOp::Ne => o != Equal,
            OrdOp::Ge => o != Less,
            OrdOp::Le => o != Greater,
            OrdOp::Gt => o == Greater,
            OrdOp::Lt => o == Less,
        },
    }
}

pub fn naive_contains(h: &[u8], p: &[u8]) -> bool {
    if p.is_empty() {
        return true;
    }
    if p.len() > h.len() {
        return false;
    }
    (0..=h.len() - p.len()).any(|i| &h[i..i + p.len()] == p)
}

pub fn ip_in_cidr(v: &IpAddr, net: &IpAddr, len: u8) -> bool {
    match (v, net) {
        (IpAddr::V4(v), IpAddr::V4(n)) => {
            let (v, n) = (u32::from(*v), u32::from(*n));
            if len == 0 {
                true
            } else if len >= 32 {
                v == n
            } else {
                (v >> (32 - len)) == (n >> (32 - len))
            }
        }
        (IpAddr::V6(v), IpAddr::V6(n)) => {
            let (v, n) = (u128::from(*v), u128::from(*n));
            if len == 0 {
                true
            } else if len >= 128 {
                v == n
            } else {
                (v >> (128 - len)) == (n >> (128 - len))
            }
        }
        _ => false,
    }
}

pub fn in_set(v: &RV, s: &SetLit) -> bool {
    match (v, s) {
        (RV::Int(x), SetLit::Int(items)) => items.iter().any(|it| match it {
            IntItem::One(a) => x == a,
            IntItem::Range(a, b) => a <= x && x <= b,
        }),
        (RV::Ip(x), SetLit::Ip(items)) => items.iter().any(|it| match it {
            IpItem::Addr(a) => cmp_ip(x, a) == Some(std::cmp::Ordering::Equal),
            IpItem::Cidr(n, l) => ip_in_cidr(x, n, *l),
            IpItem::Range(a, b) => {
                matches!(cmp_ip(a, x), Some(o) if o != std::cmp::Ordering::Greater)
                    && matches!(cmp_ip(x, b), Some(o) if o != std::cmp::Ordering::Greater)
            }
        }),
        (RV::Bytes(x), SetLit::Bytes(items)) => items.iter().any(|it| &it.data == x),
        _ => false,
    }
}

/// Semantics of the harness function family on harness values.
pub fn apply_sem(sem: Sem, args: &[RRes]) -> Option<RV> {
    match sem {
        Sem::Ident | Sem::Own => args[0].clone().ok(),
        Sem::Len => match &args[0] {
            Ok(RV::Bytes(b)) => Some(RV::Int(b.len() as i64)),
            Ok(RV::Array(_, xs)) => Some(RV::Int(xs.len() as i64)),
            Ok(RV::Map(_, m)) => Some(RV::Int(m.len() as i64)),
            _ => None,
        },
        Sem::Upper => match &args[0] {
            Ok(RV::Bytes(b)) => Some(RV::Bytes(b.to_ascii_uppercase())),
            _ => None,
        },
        Sem::Add => {
            // absent mandatory argument -> absent result; optional ones count
            // as given (they always have a value: supplied or default)
            let mut sum = 0i64;
            for a in args {
                match a {
                    Ok(RV::Int(i)) => sum = sum.wrapping_add(*i),
                    _ => return None,
                }
            }
            Some(RV::Int(sum))
        }
        Sem::First => match &args[0] {
            Ok(RV::Array(_, xs)) => xs.first().cloned(),
            _ => None,
        },
        Sem::CountTrue => match &args[0] {
            Ok(RV::Array(_, xs)) => Some(RV::Int(
                xs.iter().filter(|x| **x == RV::Bool(true)).count() as i64
            )),
            _ => None,
        },
        Sem::DropOdd => match &args[0] {
            Ok(RV::Int(i)) if i & 1 == 0 => Some(RV::Int(*i)),
            _ => None,
        },
        Sem::BoolNot => match &args[0] {
            Ok(RV::Bool(b)) => Some(RV::Bool(!b)),
            _ => None,
        },
        Sem::Glue => {
            // absent field argument contributes nothing but keeps the result
            let mut out = Vec::new();
            let mut any = false;
            for a in args {
                if let Ok(RV::Bytes(b)) = a {
                    out.extend_from_slice(b);
                    any = true;
                }
            }
            if any {
                Some(RV::Bytes(out))
            } else {
                None
            }
        }
        Sem::Concat => {
            let mut present = args.iter().filter_map(|a| a.as_ref().ok());
            let first = present.next()?;
            match first {
                RV::Bytes(b) => {
                    let mut out = b.clone();
                    for p in present {
                        if let RV::Bytes(b) = p {
                            out.extend_from_slice(b);
                        }
                    }
                    Some(RV::Bytes(out))
                }
                RV::Array(t, xs) => {
                    let mut out = xs.clone();
                    for p in present {
                        if let RV::Array(_, ys) = p {
                            out.extend(ys.iter().cloned());
                        }
                    }
                    Some(RV::Array(t.clone(), out))
                }
                _ => None,
            }
        }
        Sem::Ctx => args[0].clone().ok(),
        Sem::Boom => args[0].clone().ok(),
        Sem::Lift => match &args[0] {
            Ok(RV::Bool(b)) => Some(RV::bool_arr(vec![*b])),
            _ => None,
        },
        Sem::Pick => match (&args[0], args.get(1)) {
            (Ok(RV::Bool(_)), Some(Ok(v))) => Some(v.clone()),
            _ => None,
        },
    }
}

impl<'a> Eval<'a> {
    pub fn new(env: &'a Env, vals: &'a [Option<RV>], lists: &'a ListState) -> Self {
        Eval {
            env,
            vals,
            lists,
            calls: vec![],
            list_queries: vec![],
            unsupported: None,
            max_list: 0,
            max_steps: 0,
            ragged: false,
        }
    }

    fn base_value(&mut self, b: &Base) -> RRes {
        match b {
            Base::Field(f) => match &self.vals[*f] {
                Some(v) => Ok(v.clone()),
                None => Err(self.env.fields[*f].ty.clone()),
            },
            Base::Call(c) => self.call(c),
        }
    }

    fn step(v: &RV, i: &Idx) -> Vec<RV> {
        match (v, i) {
            (RV::Array(_, xs), Idx::Arr(n)) => xs.get(*n as usize).cloned().into_iter().collect(),
            (RV::Map(_, m), Idx::Key(k)) => m.get(k.as_bytes()).cloned().into_iter().collect(),
            (RV::Array(_, xs), Idx::Each) => xs.clone(),
            (RV::Map(_, m), Idx::Each) => m.values().cloned().collect(),
            _ => vec![],
        }
    }

    /// list-monad evaluation of a path; `None` = base absent
    fn path_list(&mut self, p: &Path) -> Option<Vec<RV>> {
        self.max_steps = self.max_steps.max(p.idx.len());
        let base = self.base_value(&p.base).ok()?;
        let mut cur = vec![base];
        for i in &p.idx {
            let mut next = Vec::new();
            for v in &cur {
                next.extend(Self::step(v, i));
            }
            cur = next;
        }
        if p.each_count() > 0 {
            self.max_list = self.max_list.max(cur.len());
        }
        Some(cur)
    }

    /// A path used as a value (function argument, quantifier argument, value
    /// expression).
    pub fn path_value(&mut self, p: &Path) -> RRes {
        let elem_t = crate::refsem::type_path_elem(self.env, p).expect("well-typed path");
        let each = p.each_count();
        if each == 0 {
            match self.path_list(p) {
                Some(mut v) if v.len() == 1 => Ok(v.pop().unwrap()),
                _ => Err(elem_t),
            }
        } else if each == 1 && p.idx.last() == Some(&Idx::Each) {
            // the value is the container that the call then iterates
            let prefix = Path {
                base: p.base.clone(),
                idx: p.idx[..p.idx.len() - 1].to_vec(),
            };
            match self.path_list(&prefix) {
                Some(mut v) if v.len() == 1 => Ok(v.pop().unwrap()),
                _ => Err(RType::arr(elem_t)),
            }
        } else {
            match self.path_list(p) {
                Some(v) => Ok(RV::Array(elem_t, v)),
                None => Err(RType::arr(elem_t)),
            }
        }
    }

    fn arg_value(&mut self, a: &Arg) -> RRes {
        match a {
            Arg::Lit(l) => Ok(l.to_rv()),
            Arg::Path(p) => self.path_value(p),
            Arg::Logical(e) => Ok(match self.expr(e) {
                EVal::B(b) => RV::Bool(b),
                EVal::V(v) => RV::bool_arr(v),
            }),
        }
    }

    fn invoke(&mut self, f: &FuncDesc, mut args: Vec<RRes>) -> Option<RV> {
        // omitted optional parameters are replaced by their declared defaults
        if f.sem != Sem::Concat && f.sem != Sem::Ctx {
            let given_opts = args.len().saturating_sub(f.params.len());
            for (_, d) in f.opts.iter().skip(given_opts) {
                args.push(Ok(d.clone()));
            }
        }
        let result = apply_sem(f.sem, &args);
        self.calls.push(CallEvent {
            site: f.site,
            args,
            result: result.clone(),
        });
        result
    }

    pub fn call(&mut self, c: &Call) -> RRes {
        let f = self.env.funcs[c.func].clone();
        let ret = match f.sem {
            Sem::Concat => match &c.args[0] {
                Arg::Lit(l) => l.ty(),
                Arg::Path(p) => type_path_elem(self.env, p).expect("typed"),
                Arg::Logical(e) => type_expr(self.env, e).expect("typed").as_rtype(),
            },
            _ => f.ret.clone(),
        };
        if call_is_mapped(c) {
            // every argument expression is evaluated (so that the expected
            // call log contains the calls nested in them) even when the
            // mapped container turns out to be absent
            let first = self.arg_value(&c.args[0]);
            let extras: Vec<RRes> = c.args[1..].iter().map(|a| self.arg_value(a)).collect();
            let first = match first {
                Ok(v) => v,
                Err(_) => return Err(RType::arr(ret)),
            };
            let elems: Vec<RV> = match first {
                RV::Array(_, xs) => xs,
                RV::Map(_, m) => m.into_values().collect(),
                _ => unreachable!("mapped argument is a container"),
            };
            let mut out = Vec::new();
            for e in elems {
                let mut args = vec![Ok(e)];
                args.extend(extras.iter().cloned());
                if let Some(r) = self.invoke(&f, args) {
                    out.push(r);
                }
            }
            Ok(RV::Array(ret, out))
        } else {
            let args: Vec<RRes> = c.args.iter().map(|a| self.arg_value(a)).collect();
            match self.invoke(&f, args) {
                Some(v) => Ok(v),
                None => Err(ret),
            }
        }
    }

    fn compare(&mut self, v: &RV, op: &CmpOp) -> bool {
        match op {
            CmpOp::IsTrue => matches!(v, RV::Bool(true)),
            CmpOp::Ord(o, lit) => match (v, lit) {
                (RV::Int(a), Lit::Int(b)) => ord_matches(*o, Some(a.cmp(b))),
                (RV::Bytes(a), Lit::Bytes(b)) => {
                    ord_matches(*o, Some(a.as_slice().cmp(b.data.as_slice())))
                }
                (RV::Ip(a), Lit::Ip(b)) => ord_matches(*o, cmp_ip(a, b)),
                _ => unreachable!("ill-typed comparison evaluated"),
            },
            CmpOp::BitAnd(m) => match v {
                RV::Int(a) => a & m != 0,
                _ => unreachable!(),
            },
            CmpOp::Contains(p) => match v {
                RV::Bytes(h) => naive_contains(h, &p.data),
                _ => unreachable!(),
            },
            CmpOp::Matches(r) => match v {
                RV::Bytes(h) => match crate::patterns::regex_is_match(&r.pattern, h) {
                    Some(b) => b,
                    None => {
                        self.unsupported = Some(format!("regex {:?}", r.pattern));
                        false
                    }
                },
                _ => unreachable!(),
            },
            CmpOp::Wildcard { strict, pat } => match v {
                RV::Bytes(h) => match crate::patterns::wildcard_is_match(&pat.data, h, !*strict) {
                    Some(b) => b,
                    None => {
                        self.unsupported = Some("invalid wildcard".into());
                        false
                    }
                },
                _ => unreachable!(),
            },
            CmpOp::InSet(s) => in_set(v, s),
            CmpOp::InList(name) => {
                self.list_queries.push(ListEvent {
                    name: name.clone(),
                    value: v.clone(),
                });
                match self.env.list_kind(&v.ty()) {
                    Some(ListKind::Always) => true,
                    Some(ListKind::Never) => false,
                    Some(ListKind::Harness) => self
                        .lists
                        .sets
                        .get(&(v.ty(), name.clone()))
                        .map_or(false, |s| s.contains(v)),
                    None => unreachable!("no list for type"),
                }
            }
        }
    }

    pub fn expr(&mut self, e: &Expr) -> EVal {
        match e {
            Expr::Cmp(p, op) => {
                let elem_t = type_path_elem(self.env, p).expect("typed");
                if p.each_count() > 0 {
                    let xs = self.path_list(p).unwrap_or_default();
                    EVal::V(xs.iter().map(|x| self.compare(x, op)).collect())
                } else if *op == CmpOp::IsTrue && elem_t == RType::bool_arr() {
                    match self.path_value(p) {
                        Ok(RV::Array(_, xs)) => {
                            EVal::V(xs.iter().map(|x| *x == RV::Bool(true)).collect())
                        }
                        _ => EVal::V(vec![]),
                    }
                } else {
                    match self.path_value(p) {
                        Ok(v) => EVal::B(self.compare(&v, op)),
                        Err(_) => EVal::B(match op {
                            CmpOp::Ord(OrdOp::Ne, _) => self.env.nil_ne,
                            _ => false,
                        }),
                    }
                }
            }
            Expr::Not(e) => match self.expr(e) {
                EVal::B(b) => EVal::B(!b),
                EVal::V(v) => EVal::V(v.into_iter().map(|b| !b).collect()),
            },
            Expr::Paren(e) => self.expr(e),
            Expr::Comb(op, items) => {
                // every operand is evaluated (no short-circuit in the model;
                // results cannot depend on it because evaluation is pure)
                let vals: Vec<EVal> = items.iter().map(|it| self.expr(it)).collect();
                let f = |a: bool, b: bool| match op {
                    LogOp::And => a && b,
                    LogOp::Or => a || b,
                    LogOp::Xor => a ^ b,
                };
                match &vals[0] {
                    EVal::B(_) => {
                        let mut acc = match vals[0] {
                            EVal::B(b) => b,
                            _ => unreachable!(),
                        };
                        for v in &vals[1..] {
                            match v {
                                EVal::B(b) => acc = f(acc, *b),
                                _ => unreachable!("mixed operand kinds"),
                            }
                        }
                        EVal::B(acc)
                    }
                    EVal::V(_) => {
                        let vecs: Vec<&Vec<bool>> = vals
                            .iter()
                            .map(|v| match v {
                                EVal::V(v) => v,
                                _ => unreachable!("mixed operand kinds"),
                            })
                            .collect();
                        let n = vecs.iter().map(|v| v.len()).min().unwrap();
                        if vecs.iter().any(|v| v.len() != n) {
                            self.ragged = true;
                        }
                        EVal::V(
                            (0..n)
                                .map(|i| {
                                    let mut acc = vecs[0][i];
                                    for v in &vecs[1..] {
                                        acc = f(acc, v[i]);
                                    }
                                    acc
                                })
                                .collect(),
                        )
                    }
                }
            }
            Expr::Quant(q, arg) => {
                let xs: Option<Vec<bool>> = match arg {
                    QArg::Path(p) => match self.path_value(p) {
                        Ok(RV::Array(_, xs)) => {
                            Some(xs.iter().map(|x| *x == RV::Bool(true)).collect())
                        }
                        _ => None,
                    },
                    QArg::Logical(e) => match self.expr(e) {
                        EVal::V(v) => Some(v),
                        EVal::B(_) => unreachable!("quantifier over a scalar"),
                    },
                };
                EVal::B(match xs {
                    None => false,
                    Some(xs) => match q {
                        QOp::Any => xs.iter().any(|b| *b),
                        QOp::All => xs.iter().all(|b| *b),
                    },
                })
            }
        }
    }

    pub fn filter(&mut self, e: &Expr) -> bool {
        match self.expr(e) {
            EVal::B(b) => b,
            EVal::V(_) => unreachable!("top level is a boolean array"),
        }
    }
}

// ---------------------------------------------------------------------------
// nesting (C13) and field usage (C12)

fn nest_path(p: &Path) -> usize {
    match &p.base {
        Base::Field(_) => 0,
        Base::Call(c) => 1 + c.args.iter().map(nest_arg).max().unwrap_or(0),
    }
}

fn nest_arg(a: &Arg) -> usize {
    match a {
        Arg::Lit(_) => 0,
        Arg::Path(p) => nest_path(p),
        Arg::Logical(e) => nesting(e),
    }
}

/// Nesting depth: enclosing parentheses, nots, quantifiers and call argument
/// lists on the deepest path.
pub fn nesting(e: &Expr) -> usize {
    match e {
        Expr::Cmp(p, _) => nest_path(p),
        Expr::Not(e) | Expr::Paren(e) => 1 + nesting(e),
        Expr::Comb(_, items) => items.iter().map(nesting).max().unwrap_or(0),
        Expr::Quant(_, a) => {
            1 + match a {
                QArg::Path(p) => nest_path(p),
                QArg::Logical(e) => nesting(e),
            }
        }
    }
}

pub fn nesting_value(p: &Path) -> usize {
    nest_path(p)
}

fn uses_path(p: &Path, out: &mut BTreeSet<usize>) {
    match &p.base {
        Base::Field(f) => {
            out.insert(*f);
        }
        Base::Call(c) => {
            for a in &c.args {
                match a {
                    Arg::Lit(_) => {}
                    Arg::Path(p) => uses_path(p, out),
                    Arg::Logical(e) => uses_expr(e, out, &mut BTreeSet::new()),
                }
            }
        }
    }
}

fn uses_list_path(p: &Path, out_list: &mut BTreeSet<usize>) {
    // fields inside list comparisons nested in call arguments
    if let Base::Call(c) = &p.base {
        for a in &c.args {
            match a {
                Arg::Lit(_) => {}
                Arg::Path(p) => uses_list_path(p, out_list),
                Arg::Logical(e) => uses_expr(e, &mut BTreeSet::new(), out_list),
            }
        }
    }
}

/// `out`: all fields occurring anywhere; `out_list`: fields occurring inside
/// the left-hand side of some `in $list` comparison.
pub fn uses_expr(e: &Expr, out: &mut BTreeSet<usize>, out_list: &mut BTreeSet<usize>) {
    match e {
        Expr::Cmp(p, op) => {
            uses_path(p, out);
            if let CmpOp::InList(_) = op {
                uses_path(p, out_list);
            }
            uses_list_path(p, out_list);
        }
        Expr::Not(e) | Expr::Paren(e) => uses_expr(e, out, out_list),
        Expr::Comb(_, items) => items.iter().for_each(|it| uses_expr(it, out, out_list)),
        Expr::Quant(_, a) => match a {
            QArg::Path(p) => {
                uses_path(p, out);
                uses_list_path(p, out_list);
            }
            QArg::Logical(e) => uses_expr(e, out, out_list),
        },
    }
}

pub fn uses_value(p: &Path, out: &mut BTreeSet<usize>, out_list: &mut BTreeSet<usize>) {
    uses_path(p, out);
    uses_list_path(p, out_list);
}
