use std::collections::BTreeMap;
use wfverif::report::{install_quiet_hook, Opts, Run};

fn usage() -> ! {
    eprintln!("usage: wfverif <Cxx> [--tier quick|thorough] [--seed N] [--jobs N] [--variant rel|dbg|asan|tsan|miri] [--only family[:index]] [--out file] [--key value ...]");
    std::process::exit(2);
}

fn main() {
    let args: Vec<String> = std::env::args().skip(1).collect();
    if args.is_empty() {
        usage();
    }
    let mut opts = Opts {
        prop: args[0].clone(),
        tier: "quick".into(),
        seed: 1,
        jobs: std::thread::available_parallelism().map(|n| n.get()).unwrap_or(4),
        variant: "rel".into(),
        only: None,
        out: None,
        extra: BTreeMap::new(),
    };
    let mut i = 1;
    while i < args.len() {
        let k = args[i].as_str();
        let v = args.get(i + 1).cloned().unwrap_or_else(|| usage());
        match k {
            "--tier" => opts.tier = v,
            "--seed" => opts.seed = v.parse().unwrap_or_else(|_| usage()),
            "--jobs" => opts.jobs = v.parse().unwrap_or_else(|_| usage()),
            "--variant" => opts.variant = v,
            "--out" => opts.out = Some(v),
            "--only" => {
                let mut it = v.splitn(2, ':');
                let fam = it.next().unwrap().to_string();
                let idx = it.next().map(|s| s.parse().unwrap_or_else(|_| usage()));
                opts.only = Some((fam, idx));
            }
            _ if k.starts_with("--") => {
                opts.extra.insert(k[2..].to_string(), v);
            }
            _ => usage(),
        }
        i += 2;
    }
    // special sub-process modes do their own panic handling
    // C19 installs its own sentinel hook; other sub-process modes likewise
    let special = opts.prop == "C19" || opts.extra.get("mode").map_or(false, |m| m != "child");
    if !special {
        install_quiet_hook();
    }
    let out = opts.out.clone();
    let run = Run::new(opts);
    if !wfverif::props::dispatch(&run) {
        eprintln!("unknown property {}", run.opts.prop);
        std::process::exit(2);
    }
    let doc = run.finish();
    let text = serde_json::to_string(&doc).unwrap();
    match out {
        Some(p) => std::fs::write(p, text).expect("write result"),
        None => println!("{}", text),
    }
    // under `cargo miri run -Zmiri-many-seeds` every seed is a separate run that
    // overwrites the result file: make a run with violations fail so that the
    // seed loop stops there and its result file is the one that is kept
    if run.opts.variant == "miri" && run.violation_count() > 0 {
        std::process::exit(3);
    }
}
