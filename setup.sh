#!/bin/sh
# Builds the harness variants needed by the quick tier, offline, from files on disk.
set -e
cd "$(dirname "$0")"
export CARGO_NET_OFFLINE=true
./check --build rel asan
